// Package vunix stands in for golang.org/x/sys/unix in the substituted files.
package vunix

import (
	"syscall"

	"golang.org/x/sys/unix"

	"github.com/talostrading/sonic/internal/vf"
	"github.com/talostrading/sonic/internal/vsys/vkernel"
)

type (
	ItimerSpec = unix.ItimerSpec
	Timespec   = unix.Timespec
	Timeval    = unix.Timeval
	FdSet      = unix.FdSet
)

const (
	CLOCK_REALTIME = unix.CLOCK_REALTIME
	TFD_NONBLOCK   = unix.TFD_NONBLOCK
	F_GETFL        = unix.F_GETFL
	O_NONBLOCK     = unix.O_NONBLOCK
	SO_REUSEPORT   = unix.SO_REUSEPORT
	SO_REUSEADDR   = unix.SO_REUSEADDR
	IP_MULTICAST_ALL = unix.IP_MULTICAST_ALL
)

func errOf(e syscall.Errno) error {
	if e == 0 {
		return nil
	}
	return e
}

func TimerfdCreate(clockid int, flags int) (int, error) {
	fd, e := vkernel.TimerfdCreate()
	return fd, errOf(e)
}

// NsecToTimespec keeps the value un-normalised ({0, ns}); TimerfdSettime below
// reads Sec*1e9+Nsec, which is the same instant (DESIGN §2.3: no division by 10^9).
func NsecToTimespec(nsec int64) Timespec { return Timespec{Sec: 0, Nsec: nsec} }

func TimerfdSettime(fd int, flags int, newValue *ItimerSpec, oldValue *ItimerSpec) error {
	ns := newValue.Value.Sec*1000000000 + newValue.Value.Nsec
	return errOf(vkernel.TimerfdSettime(fd, ns))
}

func FcntlInt(fd uintptr, cmd, arg int) (int, error) {
	if !vkernel.IsOpen(int(fd)) {
		return -1, syscall.EBADF
	}
	if vkernel.K.FDs[fd].NonBlock {
		return O_NONBLOCK, nil
	}
	return 0, nil
}

// NsecToTimeval: the value is only handed to Select below, which ignores it.
func NsecToTimeval(nsec int64) Timeval { return Timeval{} }

// Select on one descriptor: ready, timeout, EINTR (if allowed) or failure.
func Select(nfd int, r *FdSet, w *FdSet, e *FdSet, timeout *Timeval) (int, error) {
	switch vf.Choice("select", 4) {
	case 0:
		return 1, nil
	case 1:
		return 0, nil
	case 2:
		vf.Assume(vkernel.K.Cfg.AllowEINTR)
		return -1, syscall.EINTR
	}
	vf.Assume(vkernel.K.Cfg.AllowOptFail)
	return -1, syscall.EBADF
}

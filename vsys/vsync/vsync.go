// Package vsync stands in for package sync in the substituted files.
package vsync

import (
	"github.com/talostrading/sonic/internal/vf"
	"github.com/talostrading/sonic/internal/vsys/vkernel"
)

// Mutex records its holder. Locking it again from the thread that holds it is a self-deadlock; a
// thread that finds it held by another thread blocks until that one has run. Lock and Unlock are
// preemption points of the logical-thread scheduler and carry the happens-before edges.
type Mutex struct {
	held   bool
	holder int
}

func (m *Mutex) Lock() {
	vf.SyncPoint()
	for m.held {
		if m.holder == vf.ThreadID() {
			vkernel.K.Log.SelfDeadlock = true
			vf.Assert("mutex: Lock by the goroutine that already holds it (self-deadlock)", false)
			vf.Assume(false)
		}
		vf.Block("mutex")
	}
	m.held, m.holder = true, vf.ThreadID()
	vf.Acquire(m)
}

func (m *Mutex) Unlock() {
	vf.Assert("mutex: Unlock of an unlocked mutex", m.held)
	vf.Release(m)
	m.held = false
	vf.SyncPoint()
}

func (m *Mutex) TryLock() bool {
	if m.held {
		return false
	}
	m.held = true
	return true
}

// Pool returns New() or any value previously Put and not handed out since (both are allowed by sync.Pool).
type Pool struct {
	New   func() any
	items []any
}

func (p *Pool) Get() any {
	if len(p.items) > 0 && vf.Bool("pool.reuse") {
		i := vf.Choice("pool.which", len(p.items))
		i = vf.Concretize(i, 8)
		x := p.items[i]
		p.items = append(p.items[:i], p.items[i+1:]...)
		return x
	}
	if p.New != nil {
		return p.New()
	}
	return nil
}

func (p *Pool) Put(x any) {
	if len(p.items) < 4 {
		p.items = append(p.items, x)
	}
}

type WaitGroup struct{ n int }

func (w *WaitGroup) Add(d int) { w.n += d }
func (w *WaitGroup) Done()     { w.n-- }
func (w *WaitGroup) Wait()     {}

type Once struct{ done bool }

func (o *Once) Do(f func()) {
	if !o.done {
		o.done = true
		f()
	}
}

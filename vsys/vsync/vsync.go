// Package vsync stands in for package sync in the substituted files.
package vsync

import (
	"github.com/talostrading/sonic/internal/vf"
	"github.com/talostrading/sonic/internal/vsys/vkernel"
)

// Mutex records its holder; locking it again from the (single) loop thread is a self-deadlock.
type Mutex struct {
	held bool
}

func (m *Mutex) Lock() {
	if m.held {
		vkernel.K.Log.SelfDeadlock = true
		vf.Assert("mutex: Lock by the goroutine that already holds it (self-deadlock)", false)
		vf.Assume(false)
	}
	m.held = true
}

func (m *Mutex) Unlock() {
	vf.Assert("mutex: Unlock of an unlocked mutex", m.held)
	m.held = false
}

func (m *Mutex) TryLock() bool {
	if m.held {
		return false
	}
	m.held = true
	return true
}

// Pool returns New() or any value previously Put and not handed out since (both are allowed by sync.Pool).
type Pool struct {
	New   func() any
	items []any
}

func (p *Pool) Get() any {
	if len(p.items) > 0 && vf.Bool("pool.reuse") {
		i := vf.Choice("pool.which", len(p.items))
		i = vf.Concretize(i, 8)
		x := p.items[i]
		p.items = append(p.items[:i], p.items[i+1:]...)
		return x
	}
	if p.New != nil {
		return p.New()
	}
	return nil
}

func (p *Pool) Put(x any) {
	if len(p.items) < 4 {
		p.items = append(p.items, x)
	}
}

type WaitGroup struct{ n int }

func (w *WaitGroup) Add(d int) { w.n += d }
func (w *WaitGroup) Done()     { w.n-- }
func (w *WaitGroup) Wait()     {}

type Once struct{ done bool }

func (o *Once) Do(f func()) {
	if !o.done {
		o.done = true
		f()
	}
}

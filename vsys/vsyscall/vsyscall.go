// Package vsyscall stands in for package syscall in the substituted copies of
// sonic's source files: constants and types are the real ones (aliases), the
// functions act on the environment model in vkernel.
package vsyscall

import (
	"syscall"
	"unsafe"

	"github.com/talostrading/sonic/internal/vf"
	"github.com/talostrading/sonic/internal/vsys/vkernel"
)

type (
	Errno         = syscall.Errno
	Sockaddr      = syscall.Sockaddr
	SockaddrInet4 = syscall.SockaddrInet4
	SockaddrInet6 = syscall.SockaddrInet6
	SockaddrUnix  = syscall.SockaddrUnix
	RawConn       = syscall.RawConn
	Conn          = syscall.Conn
	IPMreq        = syscall.IPMreq
	IPMreqn       = syscall.IPMreqn
	Signal        = syscall.Signal
)

const (
	EAGAIN       = syscall.EAGAIN
	EWOULDBLOCK  = syscall.EWOULDBLOCK
	EINTR        = syscall.EINTR
	EINPROGRESS  = syscall.EINPROGRESS
	ECONNREFUSED = syscall.ECONNREFUSED
	EBADF        = syscall.EBADF
	EINVAL       = syscall.EINVAL
	EPERM        = syscall.EPERM
	ENOENT       = syscall.ENOENT
	EEXIST       = syscall.EEXIST
	EMFILE       = syscall.EMFILE
	ENOBUFS      = syscall.ENOBUFS
	EPIPE        = syscall.EPIPE
	ECONNRESET   = syscall.ECONNRESET
	ENOPROTOOPT  = syscall.ENOPROTOOPT
	EADDRINUSE   = syscall.EADDRINUSE

	EPOLLIN       = syscall.EPOLLIN
	EPOLLOUT      = syscall.EPOLLOUT
	EPOLLERR      = syscall.EPOLLERR
	EPOLLHUP      = syscall.EPOLLHUP
	EPOLL_CTL_ADD = syscall.EPOLL_CTL_ADD
	EPOLL_CTL_DEL = syscall.EPOLL_CTL_DEL
	EPOLL_CTL_MOD = syscall.EPOLL_CTL_MOD

	SYS_EPOLL_WAIT = syscall.SYS_EPOLL_WAIT
	SYS_EPOLL_CTL  = syscall.SYS_EPOLL_CTL
	SYS_EVENTFD2   = syscall.SYS_EVENTFD2

	O_NONBLOCK = syscall.O_NONBLOCK
	O_RDONLY   = syscall.O_RDONLY
	O_RDWR     = syscall.O_RDWR
	O_CREAT    = syscall.O_CREAT

	AF_INET     = syscall.AF_INET
	AF_INET6    = syscall.AF_INET6
	AF_UNSPEC   = syscall.AF_UNSPEC
	AF_UNIX     = syscall.AF_UNIX
	SOCK_STREAM = syscall.SOCK_STREAM
	SOCK_DGRAM  = syscall.SOCK_DGRAM

	SOL_SOCKET   = syscall.SOL_SOCKET
	SO_ERROR     = syscall.SO_ERROR
	SO_REUSEADDR = syscall.SO_REUSEADDR
	SO_BINDTODEVICE = syscall.SO_BINDTODEVICE
	IPPROTO_TCP  = syscall.IPPROTO_TCP
	IPPROTO_UDP  = syscall.IPPROTO_UDP
	IPPROTO_IP   = syscall.IPPROTO_IP
	TCP_NODELAY  = syscall.TCP_NODELAY

	IP_MULTICAST_IF   = syscall.IP_MULTICAST_IF
	IP_MULTICAST_TTL  = syscall.IP_MULTICAST_TTL
	IP_MULTICAST_LOOP = syscall.IP_MULTICAST_LOOP
	IP_ADD_MEMBERSHIP = syscall.IP_ADD_MEMBERSHIP
	IP_DROP_MEMBERSHIP = syscall.IP_DROP_MEMBERSHIP

	PROT_READ  = syscall.PROT_READ
	PROT_WRITE = syscall.PROT_WRITE
	PROT_NONE  = syscall.PROT_NONE
	MAP_SHARED = syscall.MAP_SHARED
	MAP_PRIVATE = syscall.MAP_PRIVATE
	MAP_FIXED  = syscall.MAP_FIXED
	MAP_ANONYMOUS = syscall.MAP_ANONYMOUS
	SYS_MMAP   = syscall.SYS_MMAP
	SYS_MUNMAP = syscall.SYS_MUNMAP
)

func errOf(e syscall.Errno) error {
	if e == 0 {
		return nil
	}
	return e
}

func Close(fd int) error { return errOf(vkernel.Close(fd)) }

func Read(fd int, p []byte) (int, error) {
	n, e := vkernel.Read(fd, p)
	return n, errOf(e)
}

func Write(fd int, p []byte) (int, error) {
	n, e := vkernel.Write(fd, p)
	return n, errOf(e)
}

func Open(path string, mode int, perm uint32) (int, error) {
	fd, e := vkernel.Alloc(vkernel.KFile)
	if e != 0 {
		return -1, e
	}
	return fd, nil
}

func Seek(fd int, offset int64, whence int) (int64, error) {
	if !vkernel.IsOpen(fd) {
		return -1, EBADF
	}
	return offset, nil
}

func SetNonblock(fd int, nonblocking bool) error {
	if !vkernel.IsOpen(fd) {
		return EBADF
	}
	if vkernel.K.Cfg.AllowOptFail && vf.Bool("setnonblock.fail") {
		return EINVAL
	}
	vkernel.K.FDs[fd].NonBlock = nonblocking
	return nil
}

func Pipe(p []int) error {
	r, e := vkernel.Alloc(vkernel.KPipeR)
	if e != 0 {
		return e
	}
	w, e := vkernel.Alloc(vkernel.KPipeW)
	if e != 0 {
		vkernel.Close(r)
		vkernel.K.Log.Opened--
		vkernel.K.Log.Closed--
		return e
	}
	p[0], p[1] = r, w
	return nil
}

func EpollCreate1(flag int) (int, error) {
	fd, e := vkernel.EpollCreate()
	return fd, errOf(e)
}

// epollEvent has the layout of struct epoll_event on amd64 (packed, 12 bytes),
// which is also the layout of sonic's internal.Event.
type epollEvent struct {
	Events uint32
	Data   [8]byte
}

func Syscall(trap, a1, a2, a3 uintptr) (r1, r2 uintptr, err Errno) {
	switch trap {
	case SYS_EVENTFD2:
		fd, e := vkernel.Eventfd(a2&O_NONBLOCK != 0)
		if e != 0 {
			return ^uintptr(0), 0, e
		}
		return uintptr(fd), 0, 0
	}
	panic("vsyscall.Syscall: unsupported trap")
}

func Syscall6(trap, a1, a2, a3, a4, a5, a6 uintptr) (r1, r2 uintptr, err Errno) {
	switch trap {
	case SYS_EPOLL_CTL:
		var events uint32
		var data [8]byte
		if a4 != 0 {
			ev := (*epollEvent)(unsafe.Pointer(a4))
			events, data = ev.Events, ev.Data
		}
		op := 0
		switch int(a2) {
		case EPOLL_CTL_ADD:
			op = vkernel.CtlAdd
		case EPOLL_CTL_DEL:
			op = vkernel.CtlDel
		case EPOLL_CTL_MOD:
			op = vkernel.CtlMod
		}
		if e := vkernel.EpollCtl(int(a1), op, int(a3), events, data); e != 0 {
			return ^uintptr(0), 0, e
		}
		return 0, 0, 0
	case SYS_MMAP:
		// MAP_FIXED|MAP_SHARED of a file at an address inside an existing reservation: the kernel
		// places it exactly there (or fails)
		if vkernel.K.Cfg.AllowAllocFail && vf.Bool("remap.fail") {
			return ^uintptr(0), 0, syscall.ENOMEM
		}
		if !vkernel.IsOpen(int(a5)) {
			return ^uintptr(0), 0, EBADF
		}
		vkernel.K.Log.Remaps++
		return a1, 0, 0
	case SYS_EPOLL_WAIT:
		max := int(a3)
		var ready [8]vkernel.Ready
		if max > len(ready) {
			max = len(ready)
		}
		n, e := vkernel.EpollWait(int(a1), ready[:max], int(int32(a4)))
		if e != 0 {
			return ^uintptr(0), 0, e
		}
		out := unsafe.Slice((*epollEvent)(unsafe.Pointer(a2)), max)
		for i := 0; i < n; i++ {
			out[i].Events = ready[i].Events
			out[i].Data = ready[i].Data
		}
		return uintptr(n), 0, 0
	}
	panic("vsyscall.Syscall6: unsupported trap")
}

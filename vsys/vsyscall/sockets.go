package vsyscall

import (
	"syscall"

	"github.com/talostrading/sonic/internal/vf"
	"github.com/talostrading/sonic/internal/vsys/vkernel"
)

const (
	SOCK_RAW                  = syscall.SOCK_RAW
	SYS_SETSOCKOPT            = syscall.SYS_SETSOCKOPT
	SYS_GETSOCKOPT            = syscall.SYS_GETSOCKOPT
	SizeofIPMreq              = syscall.SizeofIPMreq
	IFNAMSIZ                  = syscall.IFNAMSIZ
	IP_BLOCK_SOURCE           = syscall.IP_BLOCK_SOURCE
	IP_UNBLOCK_SOURCE         = syscall.IP_UNBLOCK_SOURCE
	IP_ADD_SOURCE_MEMBERSHIP  = syscall.IP_ADD_SOURCE_MEMBERSHIP
	IP_DROP_SOURCE_MEMBERSHIP = syscall.IP_DROP_SOURCE_MEMBERSHIP
	MAP_POPULATE              = syscall.MAP_POPULATE
)

// option slots in vkernel.FD.Opts
const (
	optLoop = iota
	optTTL
	optAll
	optReuseAddr
	optReusePort
	optNoDelay
	optSoError
	optOther
)

func optSlot(level, name int) int {
	switch {
	case level == IPPROTO_IP && name == IP_MULTICAST_LOOP:
		return optLoop
	case level == IPPROTO_IP && name == IP_MULTICAST_TTL:
		return optTTL
	case level == IPPROTO_IP && name == 49: // IP_MULTICAST_ALL
		return optAll
	case level == SOL_SOCKET && name == SO_REUSEADDR:
		return optReuseAddr
	case level == SOL_SOCKET && name == 15: // SO_REUSEPORT
		return optReusePort
	case level == IPPROTO_TCP && name == TCP_NODELAY:
		return optNoDelay
	case level == SOL_SOCKET && name == SO_ERROR:
		return optSoError
	}
	return optOther
}

func optFail(what string) bool {
	return vkernel.K.Cfg.AllowOptFail && vf.Bool(what+".fail")
}

func Socket(domain, typ, proto int) (int, error) {
	kind := vkernel.KStream
	if typ == SOCK_DGRAM || typ == SOCK_RAW {
		kind = vkernel.KDgram
	}
	fd, e := vkernel.Alloc(kind)
	if e != 0 {
		return -1, e
	}
	f := &vkernel.K.FDs[fd]
	f.Opts[optLoop], f.Opts[optTTL], f.Opts[optAll] = 1, 1, 1 // Linux defaults (ip(7))
	return fd, nil
}

func sockOK(fd int) bool {
	if !vkernel.IsOpen(fd) {
		return false
	}
	k := vkernel.KindOf(fd)
	return k == vkernel.KStream || k == vkernel.KDgram || k == vkernel.KListen
}

func Bind(fd int, sa Sockaddr) error {
	if !sockOK(fd) {
		return EBADF
	}
	if optFail("bind") {
		return EADDRINUSE
	}
	f := &vkernel.K.FDs[fd]
	f.Bound = true
	if a, ok := sa.(*SockaddrInet4); ok {
		f.BoundAddr, f.BoundPort = a.Addr, a.Port
		if f.BoundPort == 0 {
			// the kernel picks an ephemeral port
			p := int(vf.Uint16("bind.ephemeral"))
			vf.Assume(p >= 1024)
			f.BoundPort = p
		}
	}
	return nil
}

func Listen(fd int, backlog int) error {
	if !sockOK(fd) {
		return EBADF
	}
	if optFail("listen") {
		return EADDRINUSE
	}
	vkernel.K.FDs[fd].Kind = vkernel.KListen
	return nil
}

// Connect: success, EINTR (if allowed), EINPROGRESS, or failure.
func Connect(fd int, sa Sockaddr) error {
	if !sockOK(fd) {
		return EBADF
	}
	switch vf.Choice("connect", 4) {
	case 0:
		vkernel.K.FDs[fd].Connected = true
		return nil
	case 1:
		vf.Assume(vkernel.K.Cfg.AllowEINTR)
		return EINTR
	case 2:
		return EINPROGRESS
	}
	vf.Assume(vkernel.K.Cfg.AllowOptFail)
	return ECONNREFUSED
}

// pick chooses one of the outcomes the configuration allows (outcome 0 is always allowed); only the
// feasible ones are enumerated, so a restrictive configuration costs no dead paths.
func pick(name string, legal [4]bool) int {
	var idx [4]int
	n := 0
	for i, ok := range legal {
		if ok {
			idx[n] = i
			n++
		}
	}
	return idx[vf.Choice(name, n)]
}

func Accept(fd int) (int, Sockaddr, error) {
	if !vkernel.IsOpen(fd) || vkernel.KindOf(fd) != vkernel.KListen {
		return -1, nil, EBADF
	}
	switch pick("accept", [4]bool{true, vkernel.K.Cfg.AllowAgain && !vkernel.K.FDs[fd].HupSeen, vkernel.K.Cfg.AllowIOErr, false}) {
	case 1:
		return -1, nil, EAGAIN
	case 2:
		return -1, nil, syscall.ECONNABORTED
	}
	nfd, e := vkernel.Alloc(vkernel.KStream)
	if e != 0 {
		return -1, nil, e
	}
	vkernel.K.FDs[fd].Accepts++
	vkernel.K.FDs[nfd].Connected = true
	vkernel.K.FDs[nfd].Bound = true
	sa := &SockaddrInet4{Port: int(vf.Uint16("accept.port"))}
	return nfd, sa, nil
}

func Getsockname(fd int) (Sockaddr, error) {
	if !sockOK(fd) {
		return nil, EBADF
	}
	if optFail("getsockname") {
		return nil, ENOBUFS
	}
	f := &vkernel.K.FDs[fd]
	return &SockaddrInet4{Port: f.BoundPort, Addr: f.BoundAddr}, nil
}

func SetsockoptInt(fd, level, opt int, value int) error {
	if !sockOK(fd) {
		return EBADF
	}
	if optFail("setsockopt") {
		return ENOPROTOOPT
	}
	vkernel.K.FDs[fd].Opts[optSlot(level, opt)] = value
	return nil
}

func SetsockoptByte(fd, level, opt int, value byte) error {
	return SetsockoptInt(fd, level, opt, int(value))
}

func GetsockoptInt(fd, level, opt int) (int, error) {
	if !sockOK(fd) {
		return -1, EBADF
	}
	if optFail("getsockopt") {
		return -1, ENOPROTOOPT
	}
	s := optSlot(level, opt)
	if s == optSoError {
		// pending error of a non-blocking connect: 0 or an errno
		if vkernel.K.Cfg.AllowOptFail && vf.Bool("so_error.set") {
			return int(ECONNREFUSED), nil
		}
		return 0, nil
	}
	return vkernel.K.FDs[fd].Opts[s], nil
}

func SetsockoptString(fd, level, opt int, s string) error {
	if !sockOK(fd) {
		return EBADF
	}
	if optFail("setsockopt") {
		return ENOPROTOOPT
	}
	return nil
}

func SetsockoptIPMreq(fd, level, opt int, mreq *IPMreq) error {
	if !sockOK(fd) {
		return EBADF
	}
	if optFail("setsockopt") {
		return ENOPROTOOPT
	}
	return nil
}

func SetsockoptInet4Addr(fd, level, opt int, value [4]byte) error {
	if !sockOK(fd) {
		return EBADF
	}
	if optFail("setsockopt") {
		return ENOPROTOOPT
	}
	if level == IPPROTO_IP && opt == IP_MULTICAST_IF {
		vkernel.K.FDs[fd].McastIf = value
	}
	return nil
}

func GetsockoptInet4Addr(fd, level, opt int) ([4]byte, error) {
	if !sockOK(fd) {
		return [4]byte{}, EBADF
	}
	if optFail("getsockopt") {
		return [4]byte{}, ENOPROTOOPT
	}
	return vkernel.K.FDs[fd].McastIf, nil
}

func GetsockoptIPMreq(fd, level, opt int) (*IPMreq, error) {
	if !sockOK(fd) {
		return nil, EBADF
	}
	if optFail("getsockopt") {
		return nil, ENOPROTOOPT
	}
	return &IPMreq{Interface: vkernel.K.FDs[fd].McastIf}, nil
}

// Recvfrom delivers one whole datagram (1..65507 bytes, truncated to len(p)) with its source address.
// Flags of recvfrom the model understands (Linux values). MSG_TRUNC makes recvfrom report the REAL length of
// the datagram even when it was longer than the buffer; any other flag is outside the model.
const (
	MSG_PEEK  = 0x2
	MSG_TRUNC = 0x20
)

func Recvfrom(fd int, p []byte, flags int) (int, Sockaddr, error) {
	if !vkernel.IsOpen(fd) {
		return -1, nil, EBADF
	}
	f := &vkernel.K.FDs[fd]
	// would-block is possible unless epoll has reported an error/hang-up condition for this socket (then the
	// pending error or the data is returned)
	switch pick("recvfrom", [4]bool{true, vkernel.K.Cfg.AllowAgain && !f.HupSeen, vkernel.K.Cfg.AllowIOErr, vkernel.K.Cfg.AllowEOF}) {
	case 1:
		return -1, nil, EAGAIN
	case 2:
		return -1, nil, ECONNREFUSED
	case 3:
		return 0, &SockaddrInet4{}, nil // empty datagram
	}
	dl := vf.Len("dgram.len")
	vf.Assume(vf.All(1 <= dl, dl <= 65507))
	data := vf.Bytes("dgram.data", dl)
	n := dl
	if n > len(p) {
		n = len(p)
	}
	copy(p, data[:n])
	f.Delivered = append(f.Delivered[:0], data...)
	var from [4]byte
	from[0], from[1], from[2], from[3] = vf.Uint8("from.a"), vf.Uint8("from.b"), vf.Uint8("from.c"), vf.Uint8("from.d")
	port := int(vf.Uint16("from.port"))
	f.LastFrom, f.LastPort = from, port
	f.Recvs++
	if flags&MSG_TRUNC != 0 {
		return dl, &SockaddrInet4{Port: port, Addr: from}, nil
	}
	return n, &SockaddrInet4{Port: port, Addr: from}, nil
}

// Sendto: the whole datagram or an error.
func Sendto(fd int, p []byte, flags int, to Sockaddr) error {
	if !vkernel.IsOpen(fd) {
		return EBADF
	}
	f := &vkernel.K.FDs[fd]
	again := vkernel.K.Cfg.AllowAgain && !f.HupSeen
	switch pick("sendto", [4]bool{true, again, again, vkernel.K.Cfg.AllowIOErr}) {
	case 1:
		return EAGAIN
	case 2:
		return ENOBUFS
	case 3:
		return EPERM
	}
	f.Accepted = append(f.Accepted[:0], p...)
	f.Sent++
	if a, ok := to.(*SockaddrInet4); ok && a != nil {
		f.SentTo, f.SentPort = a.Addr, a.Port
	}
	return nil
}

func Getpagesize() int { return 4096 }

// Mmap of an anonymous region: a fresh zero-filled byte slice stands for the reserved address range.
func Mmap(fd int, offset int64, length int, prot int, flags int) ([]byte, error) {
	if length <= 0 {
		return nil, EINVAL
	}
	if vkernel.K.Cfg.AllowAllocFail && vf.Bool("mmap.fail") {
		return nil, syscall.ENOMEM
	}
	vkernel.K.Log.Mappings++
	return make([]byte, length), nil
}

func Munmap(b []byte) error {
	if vkernel.K.Log.Mappings > 0 {
		vkernel.K.Log.Mappings--
		return nil
	}
	return EINVAL
}

// Package vkernel is the environment model ("the kernel") behind the
// substituted syscall / x/sys/unix imports: a descriptor table with POSIX
// lowest-free allocation, stream/pipe/datagram/regular-file/timerfd/eventfd/
// epoll objects and a monotonic clock. Every outcome the real kernel may
// choose is a vf.* input, so the symbolic engine quantifies over all of them
// and a native replay reads them from the tape. Each clause is an assumption
// of the claims built on it (DESIGN.md §3).
package vkernel

import (
	"syscall"

	"github.com/talostrading/sonic/internal/vf"
)

const (
	NFD   = 12 // descriptor numbers 0..NFD-1 (0-2 are taken, as in a process)
	MaxEp = 2
)

type Kind uint8

const (
	KFree Kind = iota
	KStd
	KStream
	KListen
	KDgram
	KPipeR
	KPipeW
	KFile
	KTimer
	KEvent
	KEpoll
	KTemp
)

const (
	EPOLLIN  = 0x1
	EPOLLOUT = 0x4
	EPOLLERR = 0x8
	EPOLLHUP = 0x10
)

type Interest struct {
	Reg    bool
	Events uint32
	Data   [8]byte
}

type FD struct {
	Kind     Kind
	NonBlock bool
	Gen      int // how many times this number has been handed out
	Ep       [MaxEp]Interest
	EpIdx    int // KEpoll: index of this instance

	// byte streams (ghost): everything delivered to readers / accepted from writers
	Delivered []byte
	Accepted  []byte
	Script    []byte // if Scripted: the bytes the peer has sent so far (harness-controlled input)
	ScriptOff int
	Scripted  bool
	ScriptEOF bool // the peer has closed after the script
	PeerGone  bool // hang-up state for pipes (no writer left / no reader left)
	HupSeen   bool // epoll has reported ERR/HUP for this descriptor: the condition is permanent, I/O no longer blocks

	// datagrams: the last datagram delivered and its source
	LastFrom [4]byte
	LastPort int
	Sent     int // datagrams sent
	Recvs    int // datagrams delivered
	SentTo   [4]byte
	SentPort int
	McastIf  [4]byte

	// listening sockets
	Accepts int

	// socket addresses / options
	Bound     bool
	BoundAddr [4]byte
	BoundPort int
	Connected bool
	Opts      [8]int

	// timerfd
	Armed       bool
	Deadline    int64
	Expirations uint64
	Settimes    int

	// eventfd
	Counter uint64
}

// Cfg bounds the choices of the model; harnesses set it before use.
type Config struct {
	AllowEINTR     bool // epoll_wait / read / write may return EINTR
	AllowAllocFail bool // descriptor-creating calls may fail (EMFILE...)
	AllowCtlFail   bool // epoll_ctl may fail spuriously (ENOMEM/ENOSPC)
	AllowOptFail   bool // bind/connect/listen/getsockname/setsockopt/fcntl may fail
	AllowIOErr     bool // read/write may fail with ECONNRESET/EPIPE
	AllowEOF       bool // read may return 0
	AllowAgain     bool // read/write may return EAGAIN
	AllowPartial   bool // read/write may transfer fewer bytes than asked
	MaxShort       int  // with SplitPartial: at most this many short transfers per history (0: unlimited)
	SplitPartial   bool // with AllowPartial: a short WRITE takes a case-split concrete count (1..len-1) instead of a symbolic one
	AllowHup       bool // epoll may report ERR/HUP
	Eager          bool // epoll_wait reports everything that is ready, with full masks (a loop that is "run until quiescent")
	Batch          int  // max entries per epoll_wait
	MaxWaits       int  // max number of epoll_wait calls (0: unbounded); more is outside the bound
	MaxDataOps     int  // max number of read/write calls that transfer data (0: unbounded); more is outside the bound
	NoSpurious     bool // epoll reports a socket readable/writable only by choice anyway; kept for documentation
}

type Kernel struct {
	FDs   [NFD]FD
	Now   int64 // monotonic clock, ns
	NEp   int
	Cfg   Config
	Log   Ledger
	Waits int
	DataOps int
	Shorts  int
}

func shortAllowed() bool { return K.Cfg.MaxShort == 0 || K.Shorts < K.Cfg.MaxShort }

// Ledger records what happened, for harness oracles.
type Ledger struct {
	Files         int // temporary files that exist
	Mappings      int // anonymous mappings that exist
	Remaps        int // MAP_FIXED|MAP_SHARED file mappings placed inside a reservation
	Opened        int // descriptors created
	Closed        int // successful closes
	BadClose      int // close of a number that is not open
	ForeignClose  int // set by harness logic
	CtlFail       int
	BlockedForever bool
	SelfDeadlock  bool
	EpollWaits    int
	LastBatch     [4]int // fds of the last batch
	LastMask      [4]uint32
	LastN         int
}

var K Kernel

// Reset puts the kernel in its initial state: 0,1,2 open, everything else free.
func Reset(cfg Config) {
	K = Kernel{}
	K.Cfg = cfg
	if K.Cfg.Batch == 0 {
		K.Cfg.Batch = 1
	}
	for i := 0; i < 3; i++ {
		K.FDs[i].Kind = KStd
	}
}

func valid(fd int) bool { return fd >= 0 && fd < NFD && K.FDs[fd].Kind != KFree }

// Alloc hands out the lowest free descriptor number (POSIX), or -1 (EMFILE).
func Alloc(kind Kind) (int, syscall.Errno) {
	if K.Cfg.AllowAllocFail && vf.Bool("alloc.fail") {
		return -1, syscall.EMFILE
	}
	for i := 3; i < NFD; i++ {
		if K.FDs[i].Kind == KFree {
			g := K.FDs[i].Gen
			K.FDs[i] = FD{Kind: kind, Gen: g + 1}
			K.Log.Opened++
			return i, 0
		}
	}
	return -1, syscall.EMFILE
}

func Close(fd int) syscall.Errno {
	if !valid(fd) || K.FDs[fd].Kind == KStd {
		K.Log.BadClose++
		return syscall.EBADF
	}
	g := K.FDs[fd].Gen
	K.FDs[fd] = FD{Gen: g} // leaves every interest list (epoll_ctl(2))
	K.Log.Closed++
	return 0
}

func OpenCount() int {
	n := 0
	for i := 3; i < NFD; i++ {
		if K.FDs[i].Kind != KFree {
			n++
		}
	}
	return n
}

func IsOpen(fd int) bool { return valid(fd) }
func KindOf(fd int) Kind {
	if !valid(fd) {
		return KFree
	}
	return K.FDs[fd].Kind
}
func GenOf(fd int) int {
	if fd < 0 || fd >= NFD {
		return -1
	}
	return K.FDs[fd].Gen
}

// ---- creation helpers used by harnesses (the model peer) ----

func NewStream() int   { fd, _ := allocNoFail(KStream); K.FDs[fd].NonBlock = true; return fd }
func NewPipeRead() int { fd, _ := allocNoFail(KPipeR); K.FDs[fd].NonBlock = true; return fd }
func NewPipeWrite() int {
	fd, _ := allocNoFail(KPipeW)
	K.FDs[fd].NonBlock = true
	return fd
}
func NewRegularFile() int { fd, _ := allocNoFail(KFile); return fd }
func NewListener() int    { fd, _ := allocNoFail(KListen); K.FDs[fd].NonBlock = true; return fd }
func NewDgram() int       { fd, _ := allocNoFail(KDgram); K.FDs[fd].NonBlock = true; return fd }

func allocNoFail(kind Kind) (int, syscall.Errno) {
	saved := K.Cfg.AllowAllocFail
	K.Cfg.AllowAllocFail = false
	fd, e := Alloc(kind)
	K.Cfg.AllowAllocFail = saved
	return fd, e
}

// PeerSends appends bytes to the scripted input of fd (the harness is the peer).
func PeerSends(fd int, b []byte) {
	f := &K.FDs[fd]
	f.Scripted = true
	f.Script = append(f.Script, b...)
}

// PeerCloses marks the end of the scripted input.
func PeerCloses(fd int) {
	K.FDs[fd].Scripted = true
	K.FDs[fd].ScriptEOF = true
}

// ---- read / write ----

const (
	outData = iota
	outAgain
	outEOF
	outErr
	outIntr
	nOut
)

func pickOutcome(name string, allowAgain bool) int {
	var legal [nOut]int
	n := 0
	legal[n] = outData
	n++
	if K.Cfg.AllowAgain && allowAgain {
		legal[n] = outAgain
		n++
	}
	if K.Cfg.AllowEOF {
		legal[n] = outEOF
		n++
	}
	if K.Cfg.AllowIOErr {
		legal[n] = outErr
		n++
	}
	if K.Cfg.AllowEINTR {
		legal[n] = outIntr
		n++
	}
	return legal[vf.Choice(name, n)]
}

func Read(fd int, p []byte) (int, syscall.Errno) {
	vf.SyncPoint() // system calls on shared kernel objects are preemption points
	if !valid(fd) {
		return -1, syscall.EBADF
	}
	f := &K.FDs[fd]
	switch f.Kind {
	case KTimer:
		if len(p) < 8 {
			return -1, syscall.EINVAL
		}
		if f.Expirations == 0 {
			return -1, syscall.EAGAIN
		}
		putU64(p, f.Expirations)
		f.Expirations = 0
		return 8, 0
	case KEvent:
		if len(p) < 8 {
			return -1, syscall.EINVAL
		}
		if f.Counter == 0 {
			return -1, syscall.EAGAIN
		}
		putU64(p, f.Counter)
		f.Counter = 0
		return 8, 0
	case KStream, KPipeR, KFile, KDgram:
		if len(p) == 0 {
			return 0, 0
		}
		if f.Scripted {
			rem := len(f.Script) - f.ScriptOff
			if rem == 0 {
				if f.ScriptEOF {
					return 0, 0
				}
				return -1, syscall.EAGAIN
			}
			n := rem
			if n > len(p) {
				n = len(p)
			}
			if K.Cfg.AllowPartial && n > 1 && shortAllowed() && vf.Bool("read.short") {
				n = 1 + vf.Choice("read.n", n-1)
				K.Shorts++
			}
			copy(p, f.Script[f.ScriptOff:f.ScriptOff+n])
			f.ScriptOff += n
			return n, 0
		}
		switch pickOutcome("read", f.Kind != KFile && f.NonBlock && !f.HupSeen) {
		case outAgain:
			return -1, syscall.EAGAIN
		case outEOF:
			return 0, 0
		case outErr:
			return -1, syscall.ECONNRESET
		case outIntr:
			return -1, syscall.EINTR
		}
		n := len(p)
		if K.Cfg.AllowPartial {
			n = vf.Len("read.n")
			vf.Assume(vf.All(1 <= n, n <= len(p)))
		}
		K.DataOps++
		vf.Assume(K.Cfg.MaxDataOps == 0 || K.DataOps <= K.Cfg.MaxDataOps)
		data := vf.Bytes("read.data", n)
		copy(p, data)
		f.Delivered = append(f.Delivered, data...)
		return n, 0
	}
	return -1, syscall.EBADF
}

func Write(fd int, p []byte) (int, syscall.Errno) {
	vf.SyncPoint()
	if !valid(fd) {
		return -1, syscall.EBADF
	}
	f := &K.FDs[fd]
	switch f.Kind {
	case KEvent:
		if len(p) < 8 {
			return -1, syscall.EINVAL
		}
		f.Counter += getU64(p)
		return 8, 0
	case KStream, KPipeW, KFile, KDgram:
		if len(p) == 0 {
			return 0, 0
		}
		switch pickOutcome("write", f.Kind != KFile && f.NonBlock && !f.HupSeen) {
		case outAgain:
			return -1, syscall.EAGAIN
		case outEOF:
			return -1, syscall.EPIPE // write never returns 0 for a non-empty buffer: the peer is gone
		case outErr:
			return -1, syscall.EPIPE
		case outIntr:
			return -1, syscall.EINTR
		}
		n := len(p)
		if K.Cfg.AllowPartial && K.Cfg.SplitPartial {
			if n > 1 && shortAllowed() && vf.Bool("write.short") {
				n = 1 + vf.Choice("write.n", n-1)
				K.Shorts++
			}
		} else if K.Cfg.AllowPartial {
			n = vf.Len("write.n")
			vf.Assume(vf.All(1 <= n, n <= len(p)))
		}
		K.DataOps++
		vf.Assume(K.Cfg.MaxDataOps == 0 || K.DataOps <= K.Cfg.MaxDataOps)
		f.Accepted = append(f.Accepted, p[:n]...)
		return n, 0
	}
	return -1, syscall.EBADF
}

func putU64(p []byte, v uint64) {
	for i := 0; i < 8; i++ {
		p[i] = byte(v >> (8 * uint(i)))
	}
}

func getU64(p []byte) uint64 {
	var v uint64
	for i := 0; i < 8; i++ {
		v |= uint64(p[i]) << (8 * uint(i))
	}
	return v
}

// ---- eventfd / timerfd ----

func Eventfd(nonblock bool) (int, syscall.Errno) {
	fd, e := Alloc(KEvent)
	if e != 0 {
		return -1, e
	}
	K.FDs[fd].NonBlock = nonblock
	return fd, 0
}

func TimerfdCreate() (int, syscall.Errno) {
	fd, e := Alloc(KTimer)
	if e != 0 {
		return -1, e
	}
	K.FDs[fd].NonBlock = true
	return fd, 0
}

// TimerfdSettime arms (ns > 0) or disarms (ns == 0) the timer and resets the expiration count.
func TimerfdSettime(fd int, ns int64) syscall.Errno {
	if !valid(fd) || K.FDs[fd].Kind != KTimer {
		return syscall.EBADF
	}
	if ns < 0 {
		return syscall.EINVAL
	}
	f := &K.FDs[fd]
	f.Settimes++
	f.Expirations = 0
	if ns == 0 {
		f.Armed = false
		return 0
	}
	f.Armed = true
	f.Deadline = K.Now + ns
	return 0
}

// Advance moves the clock forward by a symbolic non-negative amount and expires timers.
func Advance() {
	d := vf.Int64("clock.advance")
	vf.Assume(vf.All(0 <= d, d <= 1<<50))
	K.Now += d
	for i := 3; i < NFD; i++ {
		f := &K.FDs[i]
		if f.Kind == KTimer && f.Armed && f.Deadline <= K.Now {
			f.Armed = false
			f.Expirations++
		}
	}
}

// ---- epoll ----

func EpollCreate() (int, syscall.Errno) {
	if K.NEp >= MaxEp {
		return -1, syscall.EMFILE
	}
	fd, e := Alloc(KEpoll)
	if e != 0 {
		return -1, e
	}
	K.FDs[fd].EpIdx = K.NEp
	K.NEp++
	return fd, 0
}

const (
	CtlAdd = 1
	CtlDel = 2
	CtlMod = 3
)

func EpollCtl(epfd, op, fd int, events uint32, data [8]byte) syscall.Errno {
	if !valid(epfd) || K.FDs[epfd].Kind != KEpoll {
		K.Log.CtlFail++
		return syscall.EBADF
	}
	if !valid(fd) {
		K.Log.CtlFail++
		return syscall.EBADF
	}
	ep := K.FDs[epfd].EpIdx
	f := &K.FDs[fd]
	if f.Kind == KFile || f.Kind == KStd && false {
		K.Log.CtlFail++
		return syscall.EPERM // regular files and directories cannot be polled (epoll_ctl(2))
	}
	it := &f.Ep[ep]
	switch op {
	case CtlAdd:
		if it.Reg {
			K.Log.CtlFail++
			return syscall.EEXIST
		}
		if K.Cfg.AllowCtlFail && vf.Bool("epoll_ctl.fail") {
			K.Log.CtlFail++
			return syscall.ENOSPC
		}
		it.Reg, it.Events, it.Data = true, events, data
	case CtlMod:
		if !it.Reg {
			K.Log.CtlFail++
			return syscall.ENOENT
		}
		if K.Cfg.AllowCtlFail && vf.Bool("epoll_ctl.fail") {
			K.Log.CtlFail++
			return syscall.ENOMEM
		}
		it.Events, it.Data = events, data
	case CtlDel:
		if !it.Reg {
			K.Log.CtlFail++
			return syscall.ENOENT
		}
		*it = Interest{}
	default:
		return syscall.EINVAL
	}
	return 0
}

// Registered reports the interest of fd in epoll instance ep (for harness oracles).
func Registered(epfd, fd int) (bool, uint32) {
	if !valid(epfd) || !valid(fd) {
		return false, 0
	}
	it := K.FDs[fd].Ep[K.FDs[epfd].EpIdx]
	return it.Reg, it.Events
}

type Ready struct {
	Events uint32
	Data   [8]byte
}

// EpollWait computes one batch: up to Cfg.Batch entries for distinct
// registered descriptors, in an arbitrary order, each with a non-empty mask
// within (registered events ∪ {ERR,HUP}); timerfd/eventfd only if readable.
func EpollWait(epfd int, out []Ready, timeoutMs int) (int, syscall.Errno) {
	if !valid(epfd) || K.FDs[epfd].Kind != KEpoll {
		return -1, syscall.EBADF
	}
	vf.SyncPoint()
	K.Log.EpollWaits++
	vf.Assume(K.Cfg.MaxWaits == 0 || K.Log.EpollWaits <= K.Cfg.MaxWaits)
	if K.Cfg.AllowEINTR && vf.Bool("epoll_wait.eintr") {
		return -1, syscall.EINTR
	}
	Advance()
	ep := K.FDs[epfd].EpIdx
	var taken [NFD]bool
	n := 0
	max := K.Cfg.Batch
	if max > len(out) {
		max = len(out)
	}
	K.Log.LastN = 0
	for n < max {
		// candidates: registered descriptors not yet in this batch that can be reported
		var cand [NFD]int
		nc := 0
		for i := 3; i < NFD; i++ {
			f := &K.FDs[i]
			if f.Kind == KFree || taken[i] || !f.Ep[ep].Reg {
				continue
			}
			switch f.Kind {
			case KTimer:
				if f.Expirations == 0 || f.Ep[ep].Events&EPOLLIN == 0 {
					continue
				}
			case KEvent:
				if f.Counter == 0 || f.Ep[ep].Events&EPOLLIN == 0 {
					continue
				}
			}
			if f.Scripted && f.Ep[ep].Events&EPOLLOUT == 0 && f.ScriptOff >= len(f.Script) && !f.ScriptEOF {
				continue // only interested in input, and there is none
			}
			cand[nc] = i
			nc++
		}
		c := 0
		if K.Cfg.Eager {
			if nc == 0 {
				break
			}
		} else {
			c = vf.Choice("epoll.pick", nc+1) // nc = no further entry
			if c == nc {
				break
			}
		}
		pick := cand[c]
		f := &K.FDs[pick]
		reg := f.Ep[ep].Events
		var mask uint32
		switch f.Kind {
		case KTimer, KEvent:
			mask = EPOLLIN
		default:
			// legal masks: non-empty, IN/OUT only if asked for, ERR/HUP whether asked for or not
			var legal [16]uint32
			nl := 0
			for m := uint32(1); m < 32; m++ {
				if m&2 != 0 { // bit 1 (EPOLLPRI) is not modelled
					continue
				}
				if m&(EPOLLIN|EPOLLOUT)&^reg != 0 {
					continue
				}
				if f.Scripted && m&EPOLLIN != 0 && f.ScriptOff >= len(f.Script) && !f.ScriptEOF {
					continue // a scripted peer: readable only when it has sent something
				}
				hup := m & (EPOLLERR | EPOLLHUP)
				if hup != 0 {
					if !K.Cfg.AllowHup {
						continue
					}
					if f.Kind != KPipeR && f.Kind != KPipeW && m&reg&(EPOLLIN|EPOLLOUT) != reg&(EPOLLIN|EPOLLOUT) {
						// sockets: HUP/ERR come together with readability (and writability when asked for)
						continue
					}
				}
				legal[nl] = m
				nl++
			}
			if nl == 0 {
				break
			}
			if K.Cfg.Eager {
				// everything that is ready: readable if input is there, writable if asked for
				mask = reg & EPOLLOUT
				if reg&EPOLLIN != 0 && (!f.Scripted || f.ScriptOff < len(f.Script) || f.ScriptEOF) {
					mask |= EPOLLIN
				}
				if mask == 0 {
					taken[pick] = true
					continue
				}
			} else {
				mask = legal[vf.Choice("epoll.mask", nl)]
			}
			if mask&(EPOLLERR|EPOLLHUP) != 0 {
				f.HupSeen = true
			}
		}
		if mask == 0 {
			break
		}
		taken[pick] = true
		out[n] = Ready{Events: mask, Data: f.Ep[ep].Data}
		if n < len(K.Log.LastBatch) {
			K.Log.LastBatch[n] = pick
			K.Log.LastMask[n] = mask
		}
		n++
		K.Log.LastN = n
	}
	if n == 0 && timeoutMs < 0 {
		// A blocking wait returns only with an event (or a signal). If something may still become
		// ready, "nothing yet" is not an outcome (the wait just goes on); if nothing can ever become
		// ready the process sleeps forever.
		deliverable := false
		for i := 3; i < NFD; i++ {
			f := &K.FDs[i]
			if f.Kind == KFree || !f.Ep[ep].Reg {
				continue
			}
			switch f.Kind {
			case KTimer:
				if f.Armed || f.Expirations > 0 {
					deliverable = true
				}
			case KEvent:
				if f.Counter > 0 {
					deliverable = true
				}
			default:
				if f.Ep[ep].Events != 0 {
					deliverable = true
				}
			}
		}
		if !deliverable {
			K.Log.BlockedForever = true
			vf.Assert("kernel:epoll_wait(-1) blocks forever: nothing registered can ever become ready", false)
		}
		vf.Assume(false)
	}
	return n, 0
}

// Package vnet stands in for package net in internal/socket_unix.go:
// name resolution is host state, so it returns an arbitrary address or an error.
package vnet

import (
	"net"

	"github.com/talostrading/sonic/internal/vf"
)

type (
	Addr      = net.Addr
	TCPAddr   = net.TCPAddr
	UDPAddr   = net.UDPAddr
	UnixAddr  = net.UnixAddr
	IP        = net.IP
	Interface = net.Interface
)

const (
	IPv4len = net.IPv4len
	IPv6len = net.IPv6len
)

var errResolve = &net.AddrError{Err: "vnet: cannot resolve", Addr: ""}

func arbitraryIP() net.IP {
	return net.IP{vf.Uint8("ip.a"), vf.Uint8("ip.b"), vf.Uint8("ip.c"), vf.Uint8("ip.d")}
}

func ResolveTCPAddr(network, address string) (*TCPAddr, error) {
	if vf.Bool("resolve.fail") {
		return nil, errResolve
	}
	return &TCPAddr{IP: arbitraryIP(), Port: int(vf.Uint16("resolve.port"))}, nil
}

func ResolveUDPAddr(network, address string) (*UDPAddr, error) {
	if vf.Bool("resolve.fail") {
		return nil, errResolve
	}
	return &UDPAddr{IP: arbitraryIP(), Port: int(vf.Uint16("resolve.port"))}, nil
}

// Package vnet stands in for package net in internal/socket_unix.go:
// name resolution is host state, so it returns an arbitrary address or an error.
package vnet

import (
	"net"

	"github.com/talostrading/sonic/internal/vf"
)

type (
	Addr      = net.Addr
	TCPAddr   = net.TCPAddr
	UDPAddr   = net.UDPAddr
	UnixAddr  = net.UnixAddr
	IP        = net.IP
	Interface = net.Interface
)

const (
	IPv4len = net.IPv4len
	IPv6len = net.IPv6len
)

var errResolve = &net.AddrError{Err: "vnet: cannot resolve", Addr: ""}

func arbitraryIP() net.IP {
	return net.IP{vf.Uint8("ip.a"), vf.Uint8("ip.b"), vf.Uint8("ip.c"), vf.Uint8("ip.d")}
}

func ResolveTCPAddr(network, address string) (*TCPAddr, error) {
	if vf.Bool("resolve.fail") {
		return nil, errResolve
	}
	return &TCPAddr{IP: arbitraryIP(), Port: int(vf.Uint16("resolve.port"))}, nil
}

func ResolveUDPAddr(network, address string) (*UDPAddr, error) {
	if vf.Bool("resolve.fail") {
		return nil, errResolve
	}
	return &UDPAddr{IP: arbitraryIP(), Port: int(vf.Uint16("resolve.port"))}, nil
}

type (
	IPNet  = net.IPNet
	IPAddr = net.IPAddr
	Flags  = net.Flags
)

const (
	FlagUp        = net.FlagUp
	FlagMulticast = net.FlagMulticast
)

var (
	IPv4zero = net.IP{0, 0, 0, 0}
	IPv6zero = net.IP{0, 0, 0, 0, 0, 0, 0, 0, 0, 0, 0, 0, 0, 0, 0, 0}
)

// InterfaceByName: interface enumeration is host state (DESIGN §3): an arbitrary outcome.
func InterfaceByName(name string) (*Interface, error) {
	if vf.Bool("ifbyname.fail") {
		return nil, errResolve
	}
	fl := net.Flags(0)
	if vf.Bool("if.up") {
		fl |= net.FlagUp
	}
	if vf.Bool("if.multicast") {
		fl |= net.FlagMulticast
	}
	return &Interface{Index: 1 + int(vf.Uint8("if.index")), Name: name, Flags: fl}, nil
}

// Package vtime stands in for package time where sonic reads the clock.
package vtime

import (
	"time"

	"github.com/talostrading/sonic/internal/vf"
)

type (
	Duration = time.Duration
	Time     = time.Time
)

const (
	Nanosecond  = time.Nanosecond
	Microsecond = time.Microsecond
	Millisecond = time.Millisecond
	Second      = time.Second
	Minute      = time.Minute
	Hour        = time.Hour
)

func Now() Time { return Time{} }

// Since returns an arbitrary non-negative elapsed time.
func Since(t Time) Duration {
	d := vf.Int64("time.since")
	vf.Assume(d >= 0)
	return Duration(d)
}

// Package vos stands in for package os in bytes/mirrored_buffer.go: a
// temporary file is a descriptor plus an entry in the model's file ledger.
package vos

import (
	"io/fs"
	"syscall"

	"github.com/talostrading/sonic/internal/vf"
	"github.com/talostrading/sonic/internal/vsys/vkernel"
)

type FileInfo = fs.FileInfo

type File struct {
	name   string
	fd     int
	closed bool
}

// Stat: the directory exists, or it does not (fs.ErrNotExist).
func Stat(name string) (FileInfo, error) {
	if vf.Bool("stat.missing") {
		return nil, fs.ErrNotExist
	}
	return nil, nil
}

func IsNotExist(err error) bool { return err == fs.ErrNotExist }

func CreateTemp(dir, pattern string) (*File, error) {
	fd, e := vkernel.Alloc(vkernel.KTemp)
	if e != 0 {
		return nil, e
	}
	vkernel.K.Log.Files++
	return &File{name: "/dev/shm/sonic-mirrored-buffer-x", fd: fd}, nil
}

func Remove(name string) error {
	if vkernel.K.Log.Files > 0 {
		vkernel.K.Log.Files--
		return nil
	}
	return fs.ErrNotExist
}

func (f *File) Name() string { return f.name }
func (f *File) Fd() uintptr  { return uintptr(f.fd) }

func (f *File) Close() error {
	if f.closed {
		return fs.ErrClosed
	}
	f.closed = true
	if e := vkernel.Close(f.fd); e != 0 {
		return e
	}
	return nil
}

func (f *File) Truncate(size int64) error {
	if vkernel.K.Cfg.AllowOptFail && vf.Bool("truncate.fail") {
		return syscall.ENOSPC
	}
	return nil
}

// Package vrand stands in for crypto/rand: Read fills with arbitrary bytes.
package vrand

import "github.com/talostrading/sonic/internal/vf"

func Read(b []byte) (int, error) {
	data := vf.Bytes("rand", len(b))
	copy(b, data)
	return len(b), nil
}

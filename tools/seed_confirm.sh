#!/bin/sh
# usage: seed_confirm.sh <worktree-key> <pkg-dir> [demo-run-regex]
# Confirms a sub-agent's seeded change myself: existing tests of the touched package pass with the change
# (in a private network namespace so parallel runs do not fight over fixed ports), the demonstration fails
# with the change and passes without it.
key=$1; pkg=$2; re=${3:-TestSeedDemo}
wt=/tmp/wt-$key
export GOFLAGS=-mod=mod GOPROXY=off
cd $wt || exit 2
git diff > /tmp/seed-$key.diff
[ -s /tmp/seed-$key.diff ] || { echo "no change in worktree"; exit 2; }
echo "== demo WITH change (expect FAIL)"
go test -vet=off -count=1 -timeout 5m -run "$re" ./$pkg 2>&1 | tail -6
git apply -R /tmp/seed-$key.diff
echo "== demo WITHOUT change (expect ok)"
go test -vet=off -count=1 -timeout 5m -run "$re" ./$pkg 2>&1 | tail -3
git apply /tmp/seed-$key.diff
echo "== existing tests WITH change (demo excluded)"
go test -c -vet=off -o /tmp/seedtest-$key.test ./$pkg && (cd ./$pkg && unshare -n sh -c "ip link set lo up 2>/dev/null; /tmp/seedtest-$key.test -test.count=1 -test.timeout=5m -test.skip '$re|TestUDPPeerIPv6_Addresses|TestClientReconnectOnFailedRead|TestCodecConnWriteNext|TestCodecConnAsyncWriteNext'" 2>&1 | tail -5)
rm -f /tmp/seedtest-$key.test

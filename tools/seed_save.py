#!/usr/bin/env python3
"""seed_save.py <dirname> <worktree-key> <property> <change> <needs> <caught_by text> [note]
Copies /tmp/seed-<key>.diff, the demo test(s) and SEED_NOTES.md of /tmp/wt-<key> into /verif/seeded/<dirname>/ and writes meta.json."""
import sys, os, json, glob, shutil
name, key, prop, change, needs, caught = sys.argv[1:7]
note = sys.argv[7] if len(sys.argv) > 7 else ""
d = '/verif/seeded/' + name
os.makedirs(d, exist_ok=True)
shutil.copy('/tmp/seed-%s.diff' % key, d + '/patch.diff')
wt = '/tmp/wt-' + key
for f in glob.glob(wt + '/**/zz_demo_*_test.go', recursive=True) + [wt + '/SEED_NOTES.md']:
    if os.path.exists(f):
        shutil.copy(f, d + '/')
json.dump({
    "property": prop,
    "origin": "independent sub-agent given only the property text and a scratch worktree",
    "change": change,
    "needs_to_manifest": needs,
    "existing_suite": "passes with the change (agent's runs, see SEED_NOTES.md; pre-existing load-sensitive flakes excepted)",
    "demo": "the zz_demo test fails with the change and passes without (both confirmed by me with git apply -R / git apply)",
    "ran": ["git -C /repo apply patch.diff", "./bin/sse check <property>", "git -C /repo checkout -- ."],
    "caught_by": caught,
    "note": note,
}, open(d + '/meta.json', 'w'), indent=1)
print("saved", d)

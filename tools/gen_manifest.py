#!/usr/bin/env python3
"""Generates /verif/MANIFEST.json from the table below (kept next to the checks so that
claimed / not-applicable stay in step with what is actually built)."""
import json, sys, os

TECH = "bounded symbolic execution of the real code's go/ssa form, every branch/bounds check/assertion decided by z3 (SMT, QF_ABV); counterexamples replayed natively"
BASE = "cd /repo && go test -vet=off -count=1 -timeout 25m ./..."

CLAIMED = {
 "C17": dict(
   text="The real Stream + CodecConn + ByteBuffers over the REAL AsyncAdapter, IO and epoll poller on the kernel model, the harness being peer (frames scripted into the socket) and application. Two scenario families, every poll batch (<= 2 entries, any order and mask) symbolic until the final drain in which the model reports everything that is ready: (1) a read is pending, an application write is started (with or without a poll cycle in between), data arrives; (2) a Ping has been read so its Pong is queued, then the next read (which flushes the Pong) and an application write are started in either order before the next poll, or serialised by poll cycles. Asserted: every started AsyncNextFrame / AsyncWrite callback ran exactly once, never twice; the byte stream the peer received parses into whole masked frames, each submitted frame (Pong, application message) exactly once and in order, payloads identical.",
   note="Directed scenarios, not free histories (a free 4-step history over this stack cost > 8 min); AsyncNextMessage, AsyncWriteFrame, AsyncClose, partial socket writes and TLS are outside this harness. The overlapping-flush defect (KF-C17-1: the read's continuation is swallowed when both chains are started before the next poll) is reported as KNOWN-FINDING; the serialised order is required to be clean.",
   ref="DESIGN.md §4 C17"),
 "C12": dict(
   text="Claimed clauses. (a) packet connection read: one recvfrom delivering one datagram of symbolic length 1..65507 from a symbolic source into a buffer of symbolic length 1..70000, inline or deferred start, would-block and errors, 2 poll cycles: exactly one callback per datagram, n = datagram length truncated to the buffer, bytes identical at an arbitrary index, sender IP and port reported. (b) packet connection write: datagram of symbolic length and destination: on success exactly one datagram emitted (retried, never duplicated, after EAGAIN/ENOBUFS) with the caller's length, bytes and destination; nothing emitted otherwise. (c) multicast peer: after the real NewUDPPeer (name resolution arbitrary, every socket call free to fail) and any sequence of 2/4 SetLoop/SetTTL/SetAll calls each succeeding or failing, TTL(), All(), Loop() (once set), LocalAddr() and Outbound() equal the kernel model's stored option values and bound address; Close releases the socket; a failing constructor leaks nothing.",
   note="NOT APPLICABLE clauses (DESIGN §5): that joined/left/blocked groups and sources filter traffic (done inside the kernel's IP stack; the Go code only forwards arguments to setsockopt), bind forms and interface selection (host state), bursts from several real senders. (d) multicast peer read/write: one callback per datagram with its truncated length and sender, data in the buffer MOST RECENTLY designated (SetAsyncReadBuffer between scheduling and completion), one datagram per successful write with the caller's bytes and destination. Known finding KF-C12-1 (inverted loop getter on a fresh peer) is reported as KNOWN-FINDING.",
   ref="DESIGN.md §4 C12"),
 "C11": dict(
   text="(1) Inductive step of Claim, Commit, Consume, Reset (+FreeSpace/UsedSpace/Full/Size) from an ARBITRARY state of a buffer of any size = m pages, 1 <= m <= 2^28 (symbolic, so every power-of-two and non-power-of-two multiple), with every amount n >= 0 incl. above free/used: the invariant 0<=used<=size, 0<=head,tail<size, tail == (head+used) mod size, used+free == size is re-established; a claim is min(n, free) long, contiguous from &slice[tail], and no byte of it (ring position at an arbitrary offset) lies among the committed-unconsumed bytes; commits occupy consecutive ring positions; Consume frees the oldest bytes. (2) The real constructor on the environment model for every requested size in [-8192, 2^40] with every system call free to fail: accepts exactly the positive sizes, rounds up to a page multiple, maps both halves of the slice from the file, leaves no descriptor / temporary file behind, holds one mapping while alive which Destroy releases (idempotent); every failing path leaves no descriptor, file or mapping.",
   note="Not applicable clause: that the two mappings are physically the same memory (a kernel fact; the repository's own tests exercise it on real memory). /dev/shm vs fallback directory is a symbolic choice of the model.",
   ref="DESIGN.md §4 C11"),
 "C08": dict(
   text="All histories of k=3/4 events from the active state, the harness acting as peer and application: peer Ping (payload 0/2/125 bytes, symbolic), Pong, data, valid Close (no status, 1000, 3000+reason, any other legal code), invalid Close (1-byte payload, code 1005, non-UTF-8 reason), protocol violation, transport EOF; local Write/AsyncWrite, Flush, Close; reads through NextFrame or AsyncNextFrame. A ghost RFC 6455 state machine gives the expected State() and the exact list of frames the client must send. After every event: State() matches, every frame on the wire is whole, masked, and is the next expected one (one Pong per Ping received while active with identical payload, in arrival order and ahead of later application frames; Pongs unanswered; peer Close echoed once with its code, 1000 if none, 1002 if invalid; local Close refuses later writes while reads go on until the peer's Close; EOF surfaces as a 1006 Close frame), at most one Close frame and nothing after it, and what is not yet on the wire is exactly what is queued; after a final Flush everything due was sent with byte-identical payloads.",
   note="Quick tier delivers each peer frame in one read (segmentation is C06's subject), thorough in <= 2; close reasons longer than 2 bytes and the server role are outside; a read attempted in a terminal stage may move State() to StateTerminated (accepted).",
   ref="DESIGN.md §4 C08"),
 "C16": dict(
   text="(1) setPayloadLength on a masked frame for EVERY length 0..2^40 (symbolic): shortest legal encoding, mask bit kept, declared length and payload offset right. (2) Sessions of 2/3 writes through Write, AsyncWrite, WriteFrame and AsyncWriteFrame with SetPayload, and WriteFrame of a caller-built frame WITHOUT payload, payload lengths {0,1,125,126,300} with symbolic bytes and mask keys, frames drawn from the pool model (fresh or any earlier released frame), transport accepting the bytes in <= 2/3 partial writes: after every write the bytes the transport has received parse (independent parser in the harness) into exactly the submitted frames in order, each with mask bit, FIN, the submitted opcode, shortest length encoding, payload that un-masks with the frame's key to the caller's bytes (every byte), and NOTHING trailing; nothing stays queued. (3) a message longer than a symbolic maximum is refused by Write and AsyncWrite without any transport write.",
   note="Automatically generated Pong and Close frames are checked on the wire under C08. Lengths above 300 bytes are covered only by (1) (the masking loop is executed concretely per byte); server role is outside.",
   ref="DESIGN.md §4 C16"),
 "C15": dict(
   text="Every conforming peer script of <= 2/3 frames (as in C06, small payloads) with ONE mutation at every position: a reserved bit set (each bit / every combination), a reserved opcode (3,7,11,15 / all ten), the mask bit, a control frame with FIN clear, a control frame with 126 payload bytes (16-bit form; 65536 bytes in the 64-bit form in the thorough tier), a continuation with no message in progress, a new data frame inside a fragmented message, a frame longer than the configured maximum; under every segmentation into <= 2/3 reads (splits 1..2/4 or the rest); read through the frame-level (blocking and async) and the message-level (blocking and async) APIs. Asserted: frames before the mutated one are fine; the read covering it returns an error (fragmentation rules: from the message-level API); no message containing it is delivered; after a framing violation State()==StateClosedByUs, the last queued frame is a Close with status 1002 (unmasked with its own key), and Write/AsyncWrite/WriteFrame are refused without queuing anything; no panic. The decoder-level totality for arbitrary bytes is C07.",
   note="VerifC15_SizeLimits adds: a message whose fragments are each within the maximum but whose total exceeds it, and a message larger than the caller's buffer, through the blocking and asynchronous message APIs. A control frame using a non-minimal length encoding with <= 125 bytes is not a violation the property lists and is not asserted.",
   ref="DESIGN.md §4 C15"),
 "C06": dict(
   text="Real Stream (client role) + CodecConn + FrameCodec + ByteBuffer over a scripted transport. Sessions: every conforming peer script of <= 3/4 frames forming <= 2 messages (text/binary, any legal fragmentation, pings/pongs anywhere, payload lengths from the class representatives {0,1,2,125,126} quick, + {65535,65536} thorough, symbolic payload bytes), every segmentation of the byte stream into <= 2/4 reads with split sizes 1..3/16 or 'the rest', through each of NextFrame, AsyncNextFrame, NextMessage, AsyncNextMessage: every frame/message is delivered once, in order, with the script's type, length and byte-identical payload (every byte compared), async callbacks exactly once. One-frame harness: payload length fully symbolic up to a symbolic max <= 2^31 (all three length encodings decided by the solver), <= 2/3 segments of symbolic sizes, payload compared at an arbitrary index.",
   note="The opening handshake is not executed (C18 n/a): the stream is put in StateActive through its unexported init, as the in-package tests do. Server role, UTF-8 validation on, sessions longer than 3/4 frames are outside the claim. The inductive read step of C07 complements the session bound.",
   ref="DESIGN.md §4 C06"),
 "C05": dict(
   text="(a) On the loop thread: 1-3 top-level Posts, handlers that Post again (nesting <= 2), Post from inside an I/O completion callback of the same batch, then 3/4 poll cycles with arbitrary batches: no Lock by the holder of the poller mutex (self-deadlock), every handler exactly once and in posting order, Pending()/Posted() exact between cycles, eventfd counter > 0 after every Post, PollOne reports n>0 when it ran a handler. (b) From OTHER goroutines: 1/2 poster threads doing 2 Posts each run as logical threads concurrently with the loop thread's poll cycles; the engine explores every interleaving with <= 3/4 preemptive context switches taken at the mutex, eventfd and epoll operations: every Post returns, no deadlock, handlers run on the loop thread, exactly once, per-poster order kept; at the quiescent point after the posters finish Pending()/Posted() equal the posts not yet run and a still-queued handler is announced on the eventfd (no lost wake-up); with the loop kept running everything runs and the counters return to zero. (c) every load/store the code under test makes to shared memory during (b) is checked for happens-before ordering (vector clocks; edges from mutex unlock->lock, atomics on the same address, thread start/join): an unordered conflicting pair is reported as a data race.",
   note="Sequential consistency; preemption only at synchronisation operations (complete for race-free code; races themselves are what (c) reports). Bounds: <= 2 posters x 2 posts, <= 3/4 preemptive switches, 2 concurrent poll cycles. A race has no native assertion to fail: its confirmation is that the recorded schedule replays natively (deterministic baton-passing scheduler in vf) up to the second access. Weak-memory effects and the AsyncHandshake use of Post (C18) are outside.",
   ref="DESIGN.md §4 C05, §11.6"),
 "C04": dict(
   text="All histories of k=3/5 actions {ScheduleOnce, ScheduleRepeating with symbolic delays in [-5, 2^40] ns, Cancel, Close, cancel+re-arm, start a pipe read, poll cycle} over two sonic.Timers and a pipe on one IO, with 1/2 further nested actions taken from inside timer or pipe callbacks of the same poll batch (batches of <= 2/3 entries in any order), symbolic clock advances. Asserted at every callback entry: the schedule it belongs to is still the active one (never after Cancel/Close, at most once for ScheduleOnce), now >= schedule time + delay (never early), repeats >= one interval apart; scheduling while scheduled or on a closed timer fails and leaves the existing schedule intact; Scheduled() <=> a callback is due. Second harness: a due timer whose deadline has passed and whose entry is delivered runs exactly once in that cycle.",
   note="Scheduling a timer from inside its own callback is outside (whether a repeating timer holds a schedule during its callback is undefined); model clock is monotonic; timerfd semantics per vsys/vkernel (settime resets the expiration count, entries of a batch are fixed when epoll_wait returns).",
   ref="DESIGN.md §4 C04"),
 "C14": dict(
   text="For each of the five copies of the dispatch-limit logic (file read/write on stream socket, pipe ends and regular file; listener accept; packet conn read/write; multicast peer read/write) one step from an ARBITRARY depth d in [0, MaxCallbackDispatch] (symbolic), which by induction covers chains of any length and any mix: inside every completion callback Dispatched equals the number of callbacks on the stack and is <= the limit, nesting <= limit+1; a callback that starts another operation on a different object nests inline below the limit and is deferred at it; at d = limit the operation is not run synchronously, is armed in the kernel, and when the poller dispatches it completes with the inline result; afterwards the accounting is back to its starting value.",
   note="All five copies are covered (the UDPPeer one by VerifC14_Peer in package multicast). Known finding KF-C14-1 (regular files cannot take the deferred path) is reported as KNOWN-FINDING.",
   ref="DESIGN.md §4 C14"),
 "C01": dict(
   text="All histories of k=2/3 actions {start read/read-all/write/write-all, Cancel, Close, poll cycle} over two objects (stream socket, pipe read end, pipe write end as file objects) sharing one real IO + epoll poller on the kernel model, started inline or at the dispatch limit, with every kernel outcome (data, EOF, EAGAIN, error), every poll batch of <= 1/2 entries in any order with any mask incl. ERR/HUP (HUP alone on pipes), and completion callbacks that re-issue, cancel or close themselves or the other object; plus both directions armed on one socket followed by k=2/3 further actions. Asserted: each callback at most once; Cancel completes each in-flight operation once with ErrCancelled; nothing invoked after Close returned; every uncompleted operation is armed in sonic's books AND in the kernel's interest list; an ERR/HUP entry completes an in-flight operation.",
   note="Kernel contract of DESIGN.md §3 (vsys/vkernel) is assumed: spurious readiness allowed, HUP/ERR is a permanent condition after which I/O no longer returns EAGAIN. Objects: sonic file over socket/pipe descriptors in the first two harnesses; VerifC01_OtherObjects runs k=3/4 histories {start, cancel, close, poll} with the listener (accept), the packet connection (read-from / write-to) or the real AsyncAdapter as object 0 next to a stream file, same assertions. kqueue back end, more than 2 objects / 2 simultaneous entries are outside the claim.",
   ref="DESIGN.md §4 C01"),
 "C02": dict(
   text="AsyncRead/AsyncReadAll/AsyncWrite/AsyncWriteAll on the real file code over the real poller and kernel model with buffer length L symbolic in [1,2^31], inline or deferred start, up to 3/4 data-transferring system calls of symbolic sizes with would-block, EOF and errors between them and 3/4 poll cycles: count passed to the callback equals the bytes the model moved, buffer bytes at an arbitrary index equal the delivered stream (reads) / accepted stream equals the caller's bytes (writes), *All succeeds only with n == L, on error n <= transferred, callback at most once, Dispatched restored, nothing pending after completion.",
   note="The same four operations on the real AsyncAdapter (scheduled through the poller, net.Conn semantics of the wrapped connection: no would-block, 0 bytes = EOF) with <= 3/4 partial transfers and 5 poll cycles are covered by VerifC02_AdapterRead/Write. More than 3/4 kernel segments per operation is outside the claim (the model prunes them); TLS is not covered.",
   ref="DESIGN.md §4 C02"),
 "C03": dict(
   text="Shadow-ledger harness over the C01 world plus a sonic.Timer and Post: after every step of all histories of k=2/3 actions (start ops on a socket or a REGULAR FILE, Cancel, Close, poll with EINTR allowed, timer arm/cancel, Post) Pending() equals operations in flight (deferred ops + armed timer + posts not run) and Posted() the posts not run; PollOne returns n>0 when it dispatched and ErrTimeout when nothing was ready, never another error; RunPending from every armed configuration of k=2/3 set-up steps returns without error exactly when the ledger is 0, and the kernel model asserts that epoll_wait(-1) is never entered when nothing registered can become ready.",
   note="RunWarm/Run (infinite by design) and concurrent posting (C05) are outside; at most 4/6 epoll_wait calls per history.",
   ref="DESIGN.md §4 C03"),
 "C20": dict(
   text="All histories of k=4 (quick) / 6 (thorough) operations {save+Push(seq, slot), Pop(seq)+Discard} over the real ByteBuffer + SlotSequencer + SlotOffsetter + sequencedSlots + FenwickTree + sort.Search, with SYMBOLIC sequence numbers (any order, duplicates, misses), packet lengths case-split in 1..3 and symbolic packet bytes, maxSlots=3, maxBytes=16; followed by a drain of everything still parked in insertion or reverse order. Asserted: popped slot addresses exactly the bytes saved under that number (every byte) before the discard, discard removes exactly them, all others stay retrievable and intact, duplicates rejected without change, capacity excess reported as error, Size()/Bytes()/SaveLen equal the ghost totals.",
   note="Bounded: histories longer than k, packets longer than 3 bytes, larger trees are outside the claim; PopRange (unexported, unused) not covered. Trusts go/ssa, the engine, z3/cvc5.",
   ref="DESIGN.md §4 C20"),
 "C19": dict(
   text="frame.Codec.Decode from an ARBITRARY buffer (sizes <= 2^40, arbitrary bytes, arbitrary 4-byte prefix): outcome class, payload bytes at an arbitrary index, prefix consumed, rest of stream kept, declared length > 1 GiB => error with no buffering (capacity unchanged); the lazy consume step separately; Encode into an arbitrary buffer for payloads 0..2 GiB; CodecConn.WriteNext/AsyncWriteNext over a scripted transport with partial writes: transport receives exactly prefix++payload and nothing stays behind; ReadNext/AsyncReadNext of one item of symbolic length delivered in <= 3/4 segments of symbolic sizes (split points anywhere); two items of length <= 2/3 written then read under every segmentation (concrete sizes).",
   note="Trusts go/ssa, the engine, z3/cvc5. Transport model: reads return 1..min(len,remaining) bytes, writes accept 1..len bytes. Histories longer than two items and more than 3/4 segments per item are outside the claim.",
   ref="DESIGN.md §4 C19"),
 "C07": dict(
   text="FrameCodec.Decode is executed symbolically from an ARBITRARY source buffer (any si<=ri<=wi<=cap<=2^40, arbitrary bytes, any max in [0,2^40]) and compared with an independent RFC 6455 header parser written in the harness: outcome class (frame / need-more / error), frame bytes at an arbitrary index, declared length (all of 7/16/64-bit classes incl. >= 2^63), no stream byte lost or altered, decoder left in sync; the lazy consume of the previous frame (resetDecode) is a second inductive step; Encode->Decode round trip for arbitrary well-formed frames of every header-bit combination and length class. No panic on any input within the bounds.",
   note="Split independence follows from the inductive formulation: need-more leaves every stream byte in place (asserted) and the next step starts from an arbitrary state. Trusts go/ssa, the engine, z3/cvc5. Buffer sizes <= 2^40.",
   ref="DESIGN.md §4 C07"),
 "C09": dict(
   text="One inductive step per public ByteBuffer method (Commit, Consume, Save, SavedSlot, Discard, DiscardAll, Reset, Reserve, Write, WriteByte, WriteString, Claim, ClaimFixed, ShrinkBy, ShrinkTo, PrepareRead, Read, ReadByte, UnreadByte, ReadFrom, AsyncReadFrom, WriteTo, AsyncWriteTo, observers) from an ARBITRARY buffer state (si<=ri<=wi<=cap<=2^40, arbitrary bytes) with every integer argument ranging over all of int64: the invariant, the per-method relational post-condition for an arbitrary byte index, and absence of panics are decided by the solver; plus histories of k=2/3 operations from NewByteBuffer.",
   note="Trusts go/ssa lowering, the engine, z3 (+cvc5/z3 5.1 portfolio for queries z3 gives up on). Slot arguments of Discard/SavedSlot are valid handles (0<=Index, 0<=Length<=si-Index); Reserve/Write above 2^40 bytes excluded (allocation failure); reader/writer stubs obey the io contracts; capacity after reallocation is any value >= the new length; Prefault not covered.",
   ref="DESIGN.md §4 C09"),
 "C10": dict(
   text="For every buffer size 1..2^40 and every non-negative argument, one Claim/Commit/Consume/Reset step from ANY state satisfying the representation invariant re-establishes the invariant and meets the FIFO/disjointness/empty-grants-full post-conditions (inductive, so histories of any length); plus all histories of k operations (k=4 quick, 6 thorough) from NewBipBuffer with symbolic size and arguments. Decided by the solver over all values, not sampled.",
   note="Trusts: go/ssa lowering, the engine's SSA interpretation (validated per run by native replay of witnesses), z3. Arguments n>=0 only (as the property states). The representation invariant is in harness/root/c10.go; a counterexample from an unreachable pre-state would be an invariant weakness, the forward-history harness is the representation-independent cross-check.",
   ref="DESIGN.md §4 C10"),
}

NA = {
 "C18": "opening handshake is decided by net/http.ReadResponse, httputil.DumpResponse, crypto/sha1, base64, bufio, goroutines and channels: outside what a hand-written go/ssa->SMT encoder can execute symbolically; stubbing them would verify the stub (DESIGN.md §5)",
}

ALL = ["C%02d" % i for i in range(1, 21)]

def main():
    checks = []
    for pid in ALL:
        if pid in CLAIMED:
            c = CLAIMED[pid]
            checks.append({
                "property_id": pid,
                "quick_cmd": "./bin/sse check %s --tier quick" % pid,
                "thorough_cmd": "./bin/sse check %s --tier thorough" % pid,
                "evidence_file": "/verif/evidence/%s.json" % pid,
                "replay_cmd_template": "./bin/sse replay {path}",
                "engine": "sse",
                "level_claimed": {"category": "model_checking", "text": c["text"], "design_ref": c["ref"]},
                "level_note": c["note"],
                "technique": TECH,
            })
    na = []
    for pid in ALL:
        if pid not in CLAIMED:
            na.append({"property_id": pid, "reason": NA.get(pid, "check not built yet (work in progress in this session; see DESIGN.md §8 build order) — no claim is made")})
    m = {
        "version": 1,
        "setup_cmd": "cd /verif/engine && GOFLAGS=-mod=mod GOPROXY=off go build -o /verif/bin/sse ./cmd/sse",
        "hooks": {
            "guard": "verif",
            "enable": "no hooks are committed in /repo: harnesses, the vf intrinsics and the environment model are injected as go/packages and `go test -overlay` overlays carrying //go:build verif; checks pass -tags verif",
            "baseline_off_cmd": BASE,
            "source_commits": [],
            "add_only": True,
        },
        "engines": [{"name": "sse", "path": "/verif/engine", "serves_properties": sorted(CLAIMED), "kind_free_text": "own symbolic executor over go/ssa (x/tools v0.29.0) + z3 4.8.12 over a pipe; decision-vector re-execution; native tape replay through go test -overlay"}],
        "checks": checks,
        "not_applicable": na,
        "notes": "Exit codes: 0 pass (KNOWN-FINDING lines allowed), 1 VIOLATION (natively reproduced), 2 INCONCLUSIVE (unwind bound, solver unknown, vacuity, engine mismatch) — never reported as success.",
    }
    json.dump(m, open("/verif/MANIFEST.json", "w"), indent=1)
    print("claimed:", sorted(CLAIMED), "n/a:", [x["property_id"] for x in na])

main()

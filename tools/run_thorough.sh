#!/bin/sh
# Runs the thorough tier of the given properties on a snapshot (used with `vp run --with-repo`).
# Results are indicative only: evidence that is committed always comes from /verif against /repo.
set -u
here=$(pwd)
export GOFLAGS=-mod=mod GOPROXY=off
(cd engine && go build -o "$here/bin/sse" ./cmd/sse) || exit 2
export SSE_VERIF="$here"
[ -n "${VP_RUN_REPO:-}" ] && export SSE_REPO="$VP_RUN_REPO"
for p in "$@"; do
  /usr/bin/time -f "$p wall=%es" timeout ${TMO:-2700} ./bin/sse check "$p" --tier thorough --no-evidence -j ${JOBS:-8} 2>&1 | grep "^sse\|VIOLATION\|harness=\|INCONCL\|KNOWN\|wall=" | cut -c1-260
done

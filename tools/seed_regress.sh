#!/bin/sh
# Re-applies every saved seeded change to /repo, runs the quick check of its property and expects a
# VIOLATION (exit 1); restores /repo after each. Nothing else may use /repo while this runs.
# usage: tools/seed_regress.sh [dir-name-filter]
cd /verif
git -C /repo status --short | grep -q . && { echo "/repo is not clean"; exit 2; }
bad=0
for d in seeded/*${1:-}*/; do
  n=$(basename $d)
  p=$(python3 -c "import json;print(json.load(open('$d/meta.json'))['property'])")
  if ! git -C /repo apply --check /verif/$d/patch.diff 2>/dev/null; then echo "SKIP  $n (patch no longer applies: see meta.json)"; continue; fi
  git -C /repo apply /verif/$d/patch.diff
  s=$(date +%s)
  out=$(timeout 3000 ./bin/sse check $p --tier quick --no-evidence 2>&1)
  rc=$?
  git -C /repo checkout -- .
  e=$(date +%s)
  if [ $rc -eq 1 ] && echo "$out" | grep -q "^VIOLATION property=$p"; then echo "CAUGHT $n ($p, $((e-s))s)"; else echo "MISSED $n ($p rc=$rc, $((e-s))s)"; bad=1; fi
done
exit $bad

// Package vf holds the verification intrinsics. The symbolic engine
// intercepts every call by name and never looks at these bodies; compiled
// natively the same calls read their values from a tape (file named by
// $VF_TAPE) so that a solver model can be replayed against the real build.
package vf

import (
	"encoding/json"
	"fmt"
	"os"
	"strconv"
)

const MEM = 1 << 40

type entry struct {
	K    string `json:"k"`
	Name string `json:"name"`
	V    string `json:"v"`
	Len  int64  `json:"len"`
	B    []byte `json:"b"`
}

var (
	tape   []entry
	pos    int
	loaded bool
)

// Load reads a tape file.
func Load(path string) {
	data, err := os.ReadFile(path)
	if err != nil {
		fail(4, "VF-TAPE-ERROR cannot read tape: %v", err)
	}
	tape = nil
	if err := json.Unmarshal(data, &tape); err != nil {
		fail(4, "VF-TAPE-ERROR cannot parse tape: %v", err)
	}
	pos = 0
	loaded = true
}

// LoadEntries installs a tape given as JSON text.
func LoadJSON(data []byte) {
	tape = nil
	if err := json.Unmarshal(data, &tape); err != nil {
		fail(4, "VF-TAPE-ERROR cannot parse tape: %v", err)
	}
	pos = 0
	loaded = true
}

func fail(code int, format string, a ...interface{}) {
	fmt.Printf(format+"\n", a...)
	os.Stdout.Sync()
	os.Exit(code)
}

func next(kind, name string) entry {
	if !loaded {
		if p := os.Getenv("VF_TAPE"); p != "" {
			Load(p)
		} else {
			fail(4, "VF-TAPE-ERROR no tape loaded")
		}
	}
	if pos >= len(tape) {
		fail(0, "VF-TAPE-END at %s %q", kind, name)
	}
	e := tape[pos]
	pos++
	if e.K != kind || e.Name != name {
		fail(3, "VF-TAPE-MISMATCH want %s %q, tape has %s %q at %d", kind, name, e.K, e.Name, pos-1)
	}
	return e
}

func Int(name string) int {
	v, _ := strconv.ParseInt(next("int", name).V, 10, 64)
	return int(v)
}
func Int64(name string) int64 {
	v, _ := strconv.ParseInt(next("int", name).V, 10, 64)
	return v
}
func Uint64(name string) uint64 {
	v, _ := strconv.ParseUint(next("u64", name).V, 10, 64)
	return v
}
func Uint32(name string) uint32 {
	v, _ := strconv.ParseUint(next("u32", name).V, 10, 64)
	return uint32(v)
}
func Uint16(name string) uint16 {
	v, _ := strconv.ParseUint(next("u16", name).V, 10, 64)
	return uint16(v)
}
func Uint8(name string) uint8 {
	v, _ := strconv.ParseUint(next("u8", name).V, 10, 64)
	return uint8(v)
}
func Bool(name string) bool { return next("bool", name).V == "1" }

// Choice returns c with 0 <= c < k.
func Choice(name string, k int) int {
	v, _ := strconv.ParseInt(next("choice", name).V, 10, 64)
	if v < 0 || int(v) >= k {
		fail(3, "VF-TAPE-MISMATCH choice %q out of range", name)
	}
	return int(v)
}

// Len is an Int meant to be used as a length (model minimisation keeps it small).
func Len(name string) int {
	v, _ := strconv.ParseInt(next("len", name).V, 10, 64)
	return int(v)
}

// Bytes returns a fresh byte slice of length and capacity n with arbitrary content.
func Bytes(name string, n int) []byte {
	e := next("bytes", name)
	if int64(n) != e.Len {
		fail(3, "VF-TAPE-MISMATCH bytes %q: n=%d tape=%d", name, n, e.Len)
	}
	if len(e.B) > n {
		fail(3, "VF-TAPE-MISMATCH bytes %q: %d recorded bytes for length %d", name, len(e.B), n)
	}
	b := make([]byte, n)
	copy(b, e.B)
	return b
}

func Assume(c bool) {
	if !c {
		fail(3, "VF-ASSUME-FAIL (tape does not satisfy an assumption)")
	}
}

// Assert states the property.
func Assert(id string, c bool) {
	if !c {
		fail(1, "VF-ASSERT-FAIL %s", id)
	}
}

// Reach marks a program point that must be reachable (vacuity guard).
func Reach(id string) {
	fmt.Printf("VF-REACH %s\n", id)
}

// Known delimits the region of a recorded finding: failures after this call
// that satisfy region are attributed to the finding.
func Known(id string, region bool) {
	if region {
		fmt.Printf("VF-KNOWN-REGION %s\n", id)
	}
}

// Unwind sets the loop bound for the rest of the harness.
func Unwind(k int) {}

// Concretize makes the engine fork over the (at most max) feasible values of x.
func Concretize(x int, max int) int { return x }

func All(cs ...bool) bool {
	for _, c := range cs {
		if !c {
			return false
		}
	}
	return true
}

func Any(cs ...bool) bool {
	for _, c := range cs {
		if c {
			return true
		}
	}
	return false
}

func Implies(a, b bool) bool { return !a || b }

func Ite(c bool, a, b int) int {
	if c {
		return a
	}
	return b
}

// Done marks the normal end of a harness.
func Done() {
	fmt.Println("VF-DONE")
}

// Thorough reports whether the thorough tier is running.
func Thorough() bool { return os.Getenv("VF_TIER") == "thorough" }

// ThoroughOnly ends the harness at once in the quick tier.
func ThoroughOnly() {
	if !Thorough() {
		fail(0, "VF-SKIP thorough-only")
	}
}

// Bound returns the tier's value of a named bound (recorded in evidence).
func Bound(name string, quick, thorough int) int {
	if Thorough() {
		return thorough
	}
	return quick
}

// Snapshot returns a private copy of b (same length and capacity contents up to len).
// The engine implements it in O(1) by sharing the immutable array term.
func Snapshot(b []byte) []byte {
	c := make([]byte, len(b))
	copy(c, b)
	return c
}

// ---- logical threads (deterministic: exactly one runs at a time; the tape holds the schedule) ----

type nthread struct {
	resume chan struct{}
	done   bool
}

var (
	thr         []*nthread
	curThread   int
	switches    int
	maxSwitches = 3
	mainJoining bool
)

func ensureMain() {
	if len(thr) == 0 {
		thr = []*nthread{{resume: make(chan struct{}, 1)}}
	}
}

// Go starts a logical thread running f. It first runs when the scheduler picks it.
func Go(f func()) {
	ensureMain()
	t := &nthread{resume: make(chan struct{}, 1)}
	id := len(thr)
	thr = append(thr, t)
	go func() {
		<-t.resume
		f()
		t.done = true
		threadDone(id)
	}()
}

func runnable(exclude int) []int {
	var r []int
	for id, t := range thr {
		if !t.done && id != exclude && !(id == 0 && mainJoining) {
			r = append(r, id)
		}
	}
	return r
}

func schedEntry(name string) int {
	v, _ := strconv.ParseInt(next("sched", name).V, 10, 64)
	return int(v)
}

func handoff(to int) {
	me := thr[curThread]
	curThread = to
	thr[to].resume <- struct{}{}
	<-me.resume
}

// SyncPoint is a preemption point (placed at the synchronisation operations of the environment model).
func SyncPoint() {
	if len(thr) <= 1 || switches >= maxSwitches {
		return
	}
	if len(runnable(-1)) <= 1 {
		return
	}
	to := schedEntry("switch")
	if to != curThread {
		switches++
		handoff(to)
	}
}

// Block: the current thread cannot proceed until another one has run.
func Block(what string) {
	if len(runnable(curThread)) == 0 {
		Assert("deadlock: every thread is blocked ("+what+")", false)
	}
	handoff(schedEntry("blocked"))
}

func threadDone(id int) {
	r := runnable(id)
	if len(r) == 0 {
		if mainJoining {
			mainJoining = false
			curThread = 0
			thr[0].resume <- struct{}{}
		}
		return
	}
	to := schedEntry("done")
	curThread = to
	thr[to].resume <- struct{}{}
}

// Join makes the main thread wait for every spawned thread.
func Join() {
	ensureMain()
	for {
		alive := false
		for _, t := range thr[1:] {
			if !t.done {
				alive = true
			}
		}
		if !alive {
			return
		}
		mainJoining = true
		if len(runnable(0)) == 0 {
			mainJoining = false
			Assert("deadlock: spawned threads cannot finish", false)
		}
		handoff(schedEntry("join"))
		mainJoining = false
	}
}

func ThreadID() int { return curThread }

// Acquire / Release tell the engine's happens-before tracker about a synchronisation object.
func Acquire(obj any) {}
func Release(obj any) {}

// RaceCheck switches the engine's data-race detection on or off.
func RaceCheck(on bool) {}

// MaxSwitches bounds the number of preemptive context switches per path.
func MaxSwitches(n int) { maxSwitches = n }

package driver

import (
	"fmt"
	"os"
	"path/filepath"
	"strings"
)

const vsysImport = "github.com/talostrading/sonic/internal/vsys/"

// shimFor maps an import path to (local name, shim package directory name).
var shimFor = map[string][2]string{
	"syscall":               {"syscall", "vsyscall"},
	"golang.org/x/sys/unix": {"unix", "vunix"},
	"sync":                  {"sync", "vsync"},
	"time":                  {"time", "vtime"},
	"os":                    {"os", "vos"},
	"net":                   {"net", "vnet"},
	"crypto/rand":           {"rand", "vrand"},
}

// substTable: repo file -> imports to be redirected to the environment model.
var substTable = map[string][]string{
	"file.go":                      {"syscall"},
	"listen_conn.go":               {"syscall"},
	"packet.go":                    {"syscall"},
	"async_adapter.go":             {"syscall"},
	"socket.go":                    {"syscall", "golang.org/x/sys/unix"},
	// "socket_linux.go":              {"syscall"},
	"internal/pipe.go":             {"syscall"},
	"internal/eventfd.go":          {"syscall"},
	"internal/util_unix.go":        {"syscall"},
	"internal/poll_linux.go":       {"syscall", "sync"},
	"internal/timer_linux.go":      {"syscall", "golang.org/x/sys/unix"},
	"internal/socket_unix.go":      {"syscall", "golang.org/x/sys/unix", "time", "net"},
	"net/ipv4/multicast.go":        {"syscall"},
	"net/ipv4/multicast_linux.go":  {"syscall"},
	"multicast/peer.go":            {"syscall", "net"},
	"multicast/util.go":            {"net"},
	"bytes/mirrored_buffer.go":     {"syscall", "os"},
	"bytes/util_linux.go":          {"syscall"},
	"codec/websocket/stream.go":    {"sync"},
	"codec/websocket/util.go":      {"crypto/rand"},
	// "codec/websocket/frame.go":     {"sync"},
	// "codec/websocket/rfc6455.go":   {"crypto/rand"},
	// "timer.go":                     {"time"},
	// "io.go":                        {"time"},
}

// substitute writes import-substituted copies of repo files to tmp and
// registers them in the overlay. Only imports whose shim package exists in
// /verif/vsys are redirected; a file none of whose imports can be redirected
// is used as it is on disk.
func substitute(tmp string, virt map[string]string) ([]string, error) {
	var done []string
	for rel, imps := range substTable {
		src := filepath.Join(RepoDir, rel)
		data, err := os.ReadFile(src)
		if err != nil {
			continue // file vanished from the tree: nothing to substitute
		}
		lines := strings.Split(string(data), "\n")
		changed := false
		inImport := false
		for i, ln := range lines {
			t := strings.TrimSpace(ln)
			if strings.HasPrefix(t, "import (") {
				inImport = true
				continue
			}
			if inImport && t == ")" {
				inImport = false
				break
			}
			single := strings.HasPrefix(t, "import \"")
			if !inImport && !single {
				continue
			}
			for _, imp := range imps {
				sh := shimFor[imp]
				if _, err := os.Stat(filepath.Join(VerifDir, "vsys", sh[1])); err != nil {
					continue
				}
				quoted := "\"" + imp + "\""
				if t == quoted || t == "import "+quoted {
					lines[i] = strings.Replace(ln, quoted, sh[0]+" \""+vsysImport+sh[1]+"\"", 1)
					changed = true
				}
			}
		}
		if !changed {
			continue
		}
		out := filepath.Join(tmp, "subst", rel)
		if err := os.MkdirAll(filepath.Dir(out), 0o755); err != nil {
			return nil, err
		}
		if err := os.WriteFile(out, []byte(strings.Join(lines, "\n")), 0o644); err != nil {
			return nil, err
		}
		virt[src] = out
		done = append(done, fmt.Sprintf("%s sha256:%s", rel, hashFile(src)))
	}
	return done, nil
}

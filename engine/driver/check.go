package driver

import (
	"encoding/json"
	"fmt"
	"os"
	"path/filepath"
	"runtime"
	"sort"
	"strings"
	"sync"
	"time"

	"sse/interp"
	"sse/smt"
)

type Options struct {
	Property string
	Tier     string
	Seed     int64
	Workers  int
	Solver   string
	Only     string // run only harnesses whose name contains this
	Verbose  bool
	NoReplay bool
	MaxPaths int
	KeepTmp  bool
	Budget   time.Duration
}

type HarnessStat struct {
	Name        string   `json:"harness"`
	Paths       int      `json:"paths"`
	OK          int      `json:"paths_ok"`
	Pruned      int      `json:"paths_pruned"`
	PanicPaths  int      `json:"panic_paths"`
	Branches    int      `json:"solver_decided_branches"`
	Asserts     int      `json:"assertions_discharged"`
	Nontrivial  int      `json:"nontrivial_paths"`
	UnwindMax   int      `json:"unwind_max_seen"`
	Reached     []string `json:"reached"`
	Incon       []string `json:"inconclusive,omitempty"`
	Violations  int      `json:"violations"`
	Known       []string `json:"known_findings_seen,omitempty"`
	WitReplayed int      `json:"witnesses_replayed"`
	SamplePath  string   `json:"sample_path,omitempty"`
	WallS       float64  `json:"wall_s"`
}

type job struct {
	h    string
	item interp.WorkItem
}

type Report struct {
	Stats      map[string]*HarnessStat
	Violations []interp.Violation
	Witnesses  map[string][]interp.ReachWitness // harness -> witnesses
	Incon      []string
	Known      map[string]bool
	Queries    int
	Sat, Unsat int
	SolverTime time.Duration
	Funcs      []string
	Paths      int
	Trans      int
	SolverRetries int // paths re-executed once because a query came back unknown
}

func LoadKnown() map[string]interp.KnownFinding {
	out := map[string]interp.KnownFinding{}
	b, err := os.ReadFile(filepath.Join(VerifDir, "known_findings.json"))
	if err != nil {
		return out
	}
	var list []interp.KnownFinding
	if err := json.Unmarshal(b, &list); err != nil {
		fmt.Fprintln(os.Stderr, "known_findings.json:", err)
		return out
	}
	for _, k := range list {
		out[k.ID] = k
	}
	return out
}

// Explore runs all paths of the given harnesses.
func Explore(l *Loaded, names []string, opt Options) (*Report, error) {
	eng := &interp.Engine{Prog: l.Prog, Fset: l.Prog.Fset, KnownIDs: LoadKnown(), Verbose: opt.Verbose}
	rep := &Report{Stats: map[string]*HarnessStat{}, Witnesses: map[string][]interp.ReachWitness{}, Known: map[string]bool{}}
	for _, n := range names {
		rep.Stats[n] = &HarnessStat{Name: n}
	}
	nw := opt.Workers
	if nw <= 0 {
		nw = runtime.NumCPU()
	}
	var mu sync.Mutex
	cond := sync.NewCond(&mu)
	var queue []job
	for i := len(names) - 1; i >= 0; i-- {
		queue = append(queue, job{names[i], interp.WorkItem{FailOb: -1}})
	}
	active := 0
	stop := false
	witTaken := map[string]bool{}
	pathSeen, pathSampled := map[string]int{}, map[string]int{}
	reachedSets := map[string]map[string]bool{}
	violSeen := map[string]bool{}
	var firstErr error
	start := time.Now()
	hStart := map[string]time.Time{}
	hEnd := map[string]time.Time{}
	maxViol := 4

	var wg sync.WaitGroup
	for w := 0; w < nw; w++ {
		wg.Add(1)
		go func(w int) {
			defer wg.Done()
			s, err := smt.New(opt.Solver, 60000)
			if err != nil {
				mu.Lock()
				firstErr = err
				stop = true
				cond.Broadcast()
				mu.Unlock()
				return
			}
			defer s.Close()
			if d := os.Getenv("SSE_SMTLOG"); d != "" {
				os.MkdirAll(d, 0o755)
				if f, err := os.Create(filepath.Join(d, fmt.Sprintf("worker%d.smt2", w))); err == nil {
					defer f.Close()
					s.Log = f
				}
			}
			ex := interp.NewExec(eng, s)
			ex.NeedWit = func(id string) bool {
				if opt.NoReplay {
					return false
				}
				mu.Lock()
				defer mu.Unlock()
				if witTaken[id] {
					return false
				}
				witTaken[id] = true
				return true
			}
			ex.WantPathSample = func(h string) bool {
				if opt.NoReplay {
					return false
				}
				mu.Lock()
				defer mu.Unlock()
				pathSeen[h]++
				// the 1st, 2nd, 4th, 8th ... completed path of each harness, shifted by the seed, at most 12 per harness
				n := pathSeen[h] + int(opt.Seed%7)
				if pathSampled[h] < 12 && n&(n-1) == 0 {
					pathSampled[h]++
					return true
				}
				return false
			}
			for {
				mu.Lock()
				for len(queue) == 0 && active > 0 && !stop {
					cond.Wait()
				}
				if stop || (len(queue) == 0 && active == 0) {
					cond.Broadcast()
					mu.Unlock()
					break
				}
				j := queue[len(queue)-1]
				queue = queue[:len(queue)-1]
				active++
				if _, ok := hStart[j.h]; !ok {
					hStart[j.h] = time.Now()
				}
				mu.Unlock()

				res := ex.RunPath(l.Harness[j.h], j.item)
				retried := false
				if res.Status == interp.PathInconclusive && strings.HasPrefix(res.Reason, "solver") {
					// every back end and the portfolio gave up on one query (on a loaded machine even trivial queries
					// can run into the time caps): the path is re-executed once from scratch; its first attempt is discarded
					retried = true
					res = ex.RunPath(l.Harness[j.h], j.item)
				}

				mu.Lock()
				active--
				if retried {
					rep.SolverRetries++
				}
				st := rep.Stats[j.h]
				st.Paths++
				rep.Paths++
				rep.Trans += len(res.Trace)
				st.Branches += res.Branches
				st.Asserts += res.Asserts
				if res.UnwindMax > st.UnwindMax {
					st.UnwindMax = res.UnwindMax
				}
				switch res.Status {
				case interp.PathOK:
					st.OK++
					if res.Branches > 0 || len(res.Trace) > 0 {
						if res.Asserts > 0 {
							st.Nontrivial++
						}
					}
				case interp.PathPruned:
					st.Pruned++
				case interp.PathViolation:
					if strings.HasPrefix(res.Reason, "panic") {
						st.PanicPaths++
					}
				case interp.PathInconclusive:
					msg := j.h + ": " + res.Reason
					st.Incon = append(st.Incon, res.Reason)
					rep.Incon = append(rep.Incon, msg)
					if opt.Verbose {
						fmt.Fprintln(os.Stderr, "INCONCLUSIVE", msg)
					}
				}
				if strings.HasPrefix(res.Reason, "panic") && res.Status != interp.PathViolation {
					st.PanicPaths++
				}
				for _, v := range res.Violations {
					key := v.Harness + "|" + v.What + "|" + v.Pos
					if !violSeen[key] {
						violSeen[key] = true
						rep.Violations = append(rep.Violations, v)
						st.Violations++
					}
				}
				for _, k := range res.KnownSeen {
					rep.Known[k] = true
					found := false
					for _, x := range st.Known {
						if x == k {
							found = true
						}
					}
					if !found {
						st.Known = append(st.Known, k)
					}
				}
				if reachedSets[j.h] == nil {
					reachedSets[j.h] = map[string]bool{}
				}
				for r := range res.Reached {
					reachedSets[j.h][r] = true
				}
				rep.Witnesses[j.h] = append(rep.Witnesses[j.h], res.Witnesses...)
				if st.SamplePath == "" && res.Status == interp.PathOK && res.Asserts > 0 && len(res.Trace) > 0 {
					st.SamplePath = fmt.Sprintf("decisions=%v asserts=%d", res.Trace, res.Asserts)
				}
				hEnd[j.h] = time.Now()
				for _, ni := range res.New {
					queue = append(queue, job{j.h, ni})
				}
				if len(rep.Violations) >= maxViol || len(rep.Incon) >= 8 {
					stop = true
				}
				if opt.MaxPaths > 0 && rep.Paths >= opt.MaxPaths {
					stop = true
					rep.Incon = append(rep.Incon, fmt.Sprintf("path budget %d exhausted", opt.MaxPaths))
				}
				if opt.Budget > 0 && time.Since(start) > opt.Budget {
					stop = true
					rep.Incon = append(rep.Incon, fmt.Sprintf("time budget %s exhausted with %d paths queued", opt.Budget, len(queue)))
				}
				cond.Broadcast()
				mu.Unlock()
			}
			mu.Lock()
			rep.Queries += s.Queries
			rep.Sat += s.NSat
			rep.Unsat += s.NUnsat
			rep.SolverTime += s.Time
			mu.Unlock()
		}(w)
	}
	wg.Wait()
	if firstErr != nil {
		return nil, firstErr
	}
	for h, set := range reachedSets {
		for r := range set {
			rep.Stats[h].Reached = append(rep.Stats[h].Reached, r)
		}
		sort.Strings(rep.Stats[h].Reached)
	}
	for h, st := range rep.Stats {
		if t0, ok := hStart[h]; ok {
			st.WallS = hEnd[h].Sub(t0).Seconds()
		}
	}
	for f := range eng.FuncsUsed {
		rep.Funcs = append(rep.Funcs, f)
	}
	sort.Strings(rep.Funcs)
	return rep, nil
}

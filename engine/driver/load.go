// Package driver loads /repo with the verification overlay, schedules
// paths over worker processes, replays models natively and writes evidence.
package driver

import (
	"crypto/sha256"
	"encoding/hex"
	"fmt"
	"os"
	"path/filepath"
	"sort"
	"strings"

	"golang.org/x/tools/go/packages"
	"golang.org/x/tools/go/ssa"
	"golang.org/x/tools/go/ssa/ssautil"
)

// RepoDir is the tree under check (SSE_REPO overrides it for background runs on a snapshot);
// VerifDir is where harnesses, shims, known findings and evidence live (SSE_VERIF overrides).
var (
	RepoDir  = envOr("SSE_REPO", "/repo")
	VerifDir = envOr("SSE_VERIF", "/verif")
)

func envOr(k, d string) string {
	if v := os.Getenv(k); v != "" {
		return v
	}
	return d
}

// harnessDirs maps a directory under /verif/harness to the package directory in /repo.
var harnessDirs = map[string]string{
	"root":      ".",
	"websocket": "codec/websocket",
	"frame":     "codec/frame",
	"bytes":     "bytes",
	"multicast": "multicast",
	"internal":  "internal",
	"ipv4":      "net/ipv4",
}

type Loaded struct {
	Prog       *ssa.Program
	Pkgs       []*packages.Package
	Overlay    map[string]string // virtual path -> real path on disk (for go test -overlay)
	OverlaySrc map[string][]byte
	Harness    map[string]*ssa.Function // by name
	HarnessPkg map[string]string        // harness name -> repo-relative package dir
	FileHash   map[string]string        // repo file -> sha256 (files containing encoded functions)
	Subst      []string
	TmpDir     string
}

func goEnv() []string {
	env := os.Environ()
	out := env[:0:0]
	for _, e := range env {
		if strings.HasPrefix(e, "GOFLAGS=") || strings.HasPrefix(e, "GOPROXY=") || strings.HasPrefix(e, "GOSUMDB=") || strings.HasPrefix(e, "GOTOOLCHAIN=") {
			continue
		}
		out = append(out, e)
	}
	return append(out, "GOFLAGS=-mod=mod", "GOPROXY=off")
}

// BuildOverlay assembles the overlay: vf, vsys shims, harnesses, substituted files.
func BuildOverlay(tmp string) (virt map[string]string, subst []string, err error) {
	virt = map[string]string{}
	// intrinsics
	virt[filepath.Join(RepoDir, "internal/vf/vf.go")] = filepath.Join(VerifDir, "vf/vf.go")
	// environment shims: /verif/vsys/<pkg>/*.go -> /repo/internal/vsys/<pkg>/*.go
	vs, _ := filepath.Glob(filepath.Join(VerifDir, "vsys/*/*.go"))
	for _, f := range vs {
		rel, _ := filepath.Rel(filepath.Join(VerifDir, "vsys"), f)
		virt[filepath.Join(RepoDir, "internal/vsys", rel)] = f
	}
	// harnesses
	for d, pkgdir := range harnessDirs {
		hs, _ := filepath.Glob(filepath.Join(VerifDir, "harness", d, "*.go"))
		for _, f := range hs {
			virt[filepath.Join(RepoDir, pkgdir, "zz_verif_"+filepath.Base(f))] = f
		}
	}
	// import substitution
	subst, err = substitute(tmp, virt)
	return
}

func Load(tmp string, patterns []string) (*Loaded, error) {
	virt, subst, err := BuildOverlay(tmp)
	if err != nil {
		return nil, err
	}
	ov := map[string][]byte{}
	for v, real := range virt {
		b, err := os.ReadFile(real)
		if err != nil {
			return nil, err
		}
		ov[v] = b
	}
	cfg := &packages.Config{
		Mode:       packages.LoadAllSyntax,
		Dir:        RepoDir,
		Overlay:    ov,
		BuildFlags: []string{"-tags=verif"},
		Env:        goEnv(),
	}
	pkgs, err := packages.Load(cfg, patterns...)
	if err != nil {
		return nil, err
	}
	var errs []string
	packages.Visit(pkgs, nil, func(p *packages.Package) {
		for _, e := range p.Errors {
			errs = append(errs, e.Error())
		}
	})
	if len(errs) > 0 {
		return nil, fmt.Errorf("load errors:\n%s", strings.Join(errs, "\n"))
	}
	prog, _ := ssautil.AllPackages(pkgs, ssa.InstantiateGenerics)
	prog.Build()
	l := &Loaded{Prog: prog, Pkgs: pkgs, Overlay: virt, OverlaySrc: ov, Harness: map[string]*ssa.Function{},
		HarnessPkg: map[string]string{}, FileHash: map[string]string{}, Subst: subst, TmpDir: tmp}
	for _, p := range prog.AllPackages() {
		if !strings.HasPrefix(p.Pkg.Path(), "github.com/talostrading/sonic") {
			continue
		}
		for name, m := range p.Members {
			if fn, ok := m.(*ssa.Function); ok && strings.HasPrefix(name, "VerifC") {
				l.Harness[name] = fn
				rel := strings.TrimPrefix(strings.TrimPrefix(p.Pkg.Path(), "github.com/talostrading/sonic"), "/")
				if rel == "" {
					rel = "."
				}
				l.HarnessPkg[name] = rel
			}
		}
	}
	return l, nil
}

func (l *Loaded) HarnessesFor(prop string) []string {
	var out []string
	for n := range l.Harness {
		if strings.HasPrefix(n, "Verif"+prop+"_") {
			out = append(out, n)
		}
	}
	sort.Strings(out)
	return out
}

func hashFile(path string) string {
	b, err := os.ReadFile(path)
	if err != nil {
		return ""
	}
	h := sha256.Sum256(b)
	return hex.EncodeToString(h[:8])
}

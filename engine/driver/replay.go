package driver

import (
	"bytes"
	"context"
	"encoding/json"
	"fmt"
	"os"
	"os/exec"
	"path/filepath"
	"sort"
	"strings"
	"time"

	"sse/interp"
)

// Replayer builds (once per package) a native test binary containing the
// harnesses, the real code and the environment shims, and runs tapes on it.
type Replayer struct {
	l      *Loaded
	tmp    string
	bins   map[string]string // pkg dir -> test binary
	errs   map[string]error
	Tier   string
	BuildS float64
}

func NewReplayer(l *Loaded, tier string) *Replayer {
	return &Replayer{l: l, tmp: l.TmpDir, bins: map[string]string{}, errs: map[string]error{}, Tier: tier}
}

func (r *Replayer) binFor(pkgdir string) (string, error) {
	if b, ok := r.bins[pkgdir]; ok {
		return b, r.errs[pkgdir]
	}
	t0 := time.Now()
	defer func() { r.BuildS += time.Since(t0).Seconds() }()
	// package name and harness list
	var names []string
	for n, d := range r.l.HarnessPkg {
		if d == pkgdir {
			names = append(names, n)
		}
	}
	sort.Strings(names)
	if len(names) == 0 {
		return "", fmt.Errorf("no harness in %s", pkgdir)
	}
	pkgName := r.l.Harness[names[0]].Pkg.Pkg.Name()
	var sb strings.Builder
	sb.WriteString("//go:build verif\n\npackage " + pkgName + "\n\nimport (\n\t\"os\"\n\t\"testing\"\n\n\t\"github.com/talostrading/sonic/internal/vf\"\n)\n\n")
	sb.WriteString("var verifHarnesses = map[string]func(){\n")
	for _, n := range names {
		fmt.Fprintf(&sb, "\t%q: %s,\n", n, n)
	}
	sb.WriteString("}\n\nfunc TestVerifReplay(t *testing.T) {\n\th := verifHarnesses[os.Getenv(\"VF_HARNESS\")]\n\tif h == nil {\n\t\tt.Fatal(\"VF-TAPE-ERROR unknown harness\")\n\t}\n\tvf.Load(os.Getenv(\"VF_TAPE\"))\n\th()\n\tvf.Done()\n}\n")
	safe := strings.ReplaceAll(pkgdir, "/", "_")
	testFile := filepath.Join(r.tmp, "replay_"+safe+"_test.go")
	if err := os.WriteFile(testFile, []byte(sb.String()), 0o644); err != nil {
		return "", err
	}
	repl := map[string]string{}
	for v, real := range r.l.Overlay {
		repl[v] = real
	}
	repl[filepath.Join(RepoDir, pkgdir, "zz_verif_replay_test.go")] = testFile
	ovb, _ := json.Marshal(map[string]interface{}{"Replace": repl})
	ovFile := filepath.Join(r.tmp, "overlay_"+safe+".json")
	if err := os.WriteFile(ovFile, ovb, 0o644); err != nil {
		return "", err
	}
	bin := filepath.Join(r.tmp, "replay_"+safe+".test")
	cmd := exec.Command("go", "test", "-c", "-vet=off", "-tags", "verif", "-overlay", ovFile, "-o", bin, "./"+pkgdir)
	cmd.Dir = RepoDir
	cmd.Env = goEnv()
	out, err := cmd.CombinedOutput()
	if err != nil {
		err = fmt.Errorf("native build of replay binary failed: %v\n%s", err, out)
	}
	r.bins[pkgdir] = bin
	r.errs[pkgdir] = err
	return bin, err
}

type ReplayResult struct {
	Output   string
	ExitCode int
	Reached  map[string]bool
	Failed   string // assertion id
	Panicked bool
	Done     bool
	Mismatch bool
	TapeEnd  bool
	Timeout  bool
}

func (r *Replayer) Run(harness string, tape []interp.TapeEntry) (*ReplayResult, error) {
	pkgdir := r.l.HarnessPkg[harness]
	bin, err := r.binFor(pkgdir)
	if err != nil {
		return nil, err
	}
	tf, err := os.CreateTemp(r.tmp, "tape*.json")
	if err != nil {
		return nil, err
	}
	tb, _ := json.Marshal(tape)
	tf.Write(tb)
	tf.Close()
	defer os.Remove(tf.Name())
	return r.RunFile(bin, harness, tf.Name())
}

func (r *Replayer) RunFile(bin, harness, tapeFile string) (*ReplayResult, error) {
	ctx, cancel := context.WithTimeout(context.Background(), 60*time.Second)
	defer cancel()
	cmd := exec.CommandContext(ctx, bin, "-test.run", "^TestVerifReplay$", "-test.count=1")
	cmd.Dir = filepath.Join(RepoDir, r.l.HarnessPkg[harness])
	cmd.Env = append(os.Environ(), "VF_HARNESS="+harness, "VF_TAPE="+tapeFile, "VF_TIER="+r.Tier)
	var buf bytes.Buffer
	cmd.Stdout = &buf
	cmd.Stderr = &buf
	err := cmd.Run()
	res := &ReplayResult{Output: buf.String(), Reached: map[string]bool{}}
	if ctx.Err() != nil {
		res.Timeout = true
	}
	if ee, ok := err.(*exec.ExitError); ok {
		res.ExitCode = ee.ExitCode()
	} else if err != nil {
		return res, err
	}
	for _, ln := range strings.Split(res.Output, "\n") {
		switch {
		case strings.HasPrefix(ln, "VF-REACH "):
			res.Reached[strings.TrimPrefix(ln, "VF-REACH ")] = true
		case strings.HasPrefix(ln, "VF-ASSERT-FAIL "):
			res.Failed = strings.TrimPrefix(ln, "VF-ASSERT-FAIL ")
		case strings.HasPrefix(ln, "panic:") || strings.HasPrefix(ln, "fatal error:"):
			res.Panicked = true
		case strings.HasPrefix(ln, "VF-DONE"):
			res.Done = true
		case strings.HasPrefix(ln, "VF-TAPE-END"):
			res.TapeEnd = true
		case strings.HasPrefix(ln, "VF-TAPE-MISMATCH") || strings.HasPrefix(ln, "VF-ASSUME-FAIL") || strings.HasPrefix(ln, "VF-TAPE-ERROR"):
			res.Mismatch = true
		}
	}
	return res, nil
}

// Confirms reports whether the native run reproduces violation v.
func Confirms(v interp.Violation, rr *ReplayResult) bool {
	if rr.Mismatch {
		return false
	}
	if v.Kind == "assert" {
		return rr.Failed == v.What
	}
	if v.Kind == "race" {
		// the schedule in the tape is executable: the native run followed it to the end of the tape
		return !rr.Panicked && rr.Failed == "" && (rr.TapeEnd || rr.Done)
	}
	if !rr.Panicked {
		return false
	}
	// panic: the location must show up in the goroutine trace
	pos := v.Pos
	if i := strings.LastIndex(pos, "/"); i >= 0 {
		pos = pos[i+1:]
	}
	return strings.Contains(rr.Output, pos)
}

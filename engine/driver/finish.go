package driver

import (
	"encoding/json"
	"fmt"
	"go/constant"
	"os"
	"path/filepath"
	"sort"
	"strings"

	"golang.org/x/tools/go/ssa"

	"sse/interp"
)

type Outcome struct {
	Exit           int
	Lines          []string
	ReplaysOK      int
	ReplaysTried   int
	PathSamplesOK  int
	PathSamplesSkipped int
	Confirmed      []interp.Violation
	Unconfirmed    []interp.Violation
	MissingMarkers []string
	KnownPrinted   []string
	LoadS, WallS   float64
	ReplayBuildS   float64
	Inconclusive   []string
}

// requiredMarkers collects the vf.Reach ids statically present in a harness
// (and in the harness-file helpers it calls).
func requiredMarkers(fn *ssa.Function) []string {
	seen := map[*ssa.Function]bool{}
	ids := map[string]bool{}
	var walk func(f *ssa.Function)
	walk = func(f *ssa.Function) {
		if f == nil || seen[f] || len(f.Blocks) == 0 {
			return
		}
		seen[f] = true
		for _, b := range f.Blocks {
			for _, in := range b.Instrs {
				var cc *ssa.CallCommon
				switch in := in.(type) {
				case *ssa.Call:
					cc = &in.Call
				case *ssa.Defer:
					cc = &in.Call
				case *ssa.MakeClosure:
					if g, ok := in.Fn.(*ssa.Function); ok {
						walk(g)
					}
				}
				if cc == nil {
					continue
				}
				if g := cc.StaticCallee(); g != nil {
					if strings.HasSuffix(g.String(), "/internal/vf.Reach") {
						if c, ok := cc.Args[0].(*ssa.Const); ok && !strings.HasPrefix(constant.StringVal(c.Value), "opt:") {
							ids[constant.StringVal(c.Value)] = true
						}
						continue
					}
					if p := g.Pos(); p.IsValid() {
						file := f.Prog.Fset.Position(p).Filename
						if strings.Contains(filepath.Base(file), "zz_verif_") {
							walk(g)
						}
					}
				}
			}
		}
		for _, af := range f.AnonFuncs {
			walk(af)
		}
	}
	walk(fn)
	var out []string
	for id := range ids {
		out = append(out, id)
	}
	sort.Strings(out)
	return out
}

func Finish(l *Loaded, rep *Report, names []string, opt Options, noReplay bool) *Outcome {
	out := &Outcome{}
	prop := opt.Property
	known := LoadKnown()
	// 1. inconclusive paths
	for _, m := range rep.Incon {
		out.Inconclusive = append(out.Inconclusive, m)
	}
	// 2. vacuity
	complete := len(rep.Incon) == 0 && len(rep.Violations) == 0
	for _, n := range names {
		st := rep.Stats[n]
		if interp.Tier != "thorough" && st.Paths > 0 && st.OK == 0 && st.Pruned == st.Paths && len(st.Reached) == 1 && st.Reached[0] == "opt:thorough-only" {
			continue
		}
		have := map[string]bool{}
		for _, r := range st.Reached {
			have[r] = true
		}
		if have["opt:thorough-only"] && interp.Tier != "thorough" {
			continue
		}
		for _, id := range requiredMarkers(l.Harness[n]) {
			if !have[id] && complete {
				out.MissingMarkers = append(out.MissingMarkers, n+"/"+id)
			}
		}
		if st.OK == 0 && complete {
			out.MissingMarkers = append(out.MissingMarkers, n+"/<no path reaches the end of the harness>")
		}
	}
	// 3. native replays
	var rp *Replayer
	if !noReplay {
		rp = NewReplayer(l, opt.Tier)
	}
	nextDir := func() string {
		base := filepath.Join(VerifDir, "replays", prop)
		os.MkdirAll(base, 0o755)
		for i := 1; ; i++ {
			d := filepath.Join(base, fmt.Sprint(i))
			if _, err := os.Stat(d); err != nil {
				return d
			}
		}
	}
	for _, v := range rep.Violations {
		if v.Tape == nil {
			out.Inconclusive = append(out.Inconclusive, fmt.Sprintf("%s: %s: counterexample has no replayable model (UNREPLAYABLE size)", v.Harness, v.What))
			continue
		}
		if rp == nil {
			out.Unconfirmed = append(out.Unconfirmed, v)
			out.Inconclusive = append(out.Inconclusive, fmt.Sprintf("%s: %s at %s: counterexample not replayed (--no-replay)", v.Harness, v.What, v.Pos))
			continue
		}
		out.ReplaysTried++
		rr, err := rp.Run(v.Harness, v.Tape)
		if err != nil {
			out.Inconclusive = append(out.Inconclusive, "replay: "+err.Error())
			continue
		}
		if Confirms(v, rr) {
			out.ReplaysOK++
			out.Confirmed = append(out.Confirmed, v)
			dir := nextDir()
			os.MkdirAll(dir, 0o755)
			tb, _ := json.MarshalIndent(v.Tape, "", " ")
			os.WriteFile(filepath.Join(dir, "tape.json"), tb, 0o644)
			mb, _ := json.MarshalIndent(map[string]string{"harness": v.Harness, "what": v.What, "kind": v.Kind, "pos": v.Pos, "tier": opt.Tier, "property": prop}, "", " ")
			os.WriteFile(filepath.Join(dir, "meta.json"), mb, 0o644)
			os.WriteFile(filepath.Join(dir, "native_output.txt"), []byte(rr.Output), 0o644)
			os.WriteFile(filepath.Join(dir, "replay.sh"), []byte("#!/bin/sh\ncd /verif && exec ./bin/sse replay "+dir+"\n"), 0o755)
			out.Lines = append(out.Lines, fmt.Sprintf("VIOLATION property=%s replay=%s", prop, dir))
			out.Lines = append(out.Lines, fmt.Sprintf("  harness=%s %s=%s at %s (reproduced natively)", v.Harness, v.Kind, v.What, v.Pos))
		} else {
			out.Unconfirmed = append(out.Unconfirmed, v)
			tail := rr.Output
			if len(tail) > 1500 {
				tail = tail[len(tail)-1500:]
			}
			dir := filepath.Join(VerifDir, "replays", prop, "mismatch-"+v.Harness+"-"+strings.ReplaceAll(v.What, "/", "_"))
			if len(dir) > 200 {
				dir = dir[:200]
			}
			os.MkdirAll(dir, 0o755)
			tb, _ := json.MarshalIndent(v.Tape, "", " ")
			os.WriteFile(filepath.Join(dir, "tape.json"), tb, 0o644)
			mb, _ := json.Marshal(map[string]string{"harness": v.Harness, "what": v.What, "kind": v.Kind, "pos": v.Pos, "tier": opt.Tier, "property": prop})
			os.WriteFile(filepath.Join(dir, "meta.json"), mb, 0o644)
			out.Inconclusive = append(out.Inconclusive, fmt.Sprintf("ENGINE-MISMATCH %s: %s at %s did not reproduce natively (tape in %s); native output tail:\n%s", v.Harness, v.What, v.Pos, dir, tail))
		}
	}
	// reach witnesses
	if rp != nil {
		for _, n := range names {
			for _, w := range rep.Witnesses[n] {
				out.ReplaysTried++
				rr, err := rp.Run(n, w.Tape)
				if err != nil {
					out.Inconclusive = append(out.Inconclusive, "replay: "+err.Error())
					break
				}
				if w.ID == "\x00path" {
					// a completed path on which every assertion was discharged: natively it must run to the end
					if rr.Done && rr.Failed == "" && !rr.Panicked && !rr.Mismatch {
						out.ReplaysOK++
						out.PathSamplesOK++
					} else if rr.Failed == "" && !rr.Panicked && (rr.Mismatch || rr.TapeEnd) {
						// the tape cannot be followed natively (e.g. a harness assumption mentions a capacity the
						// runtime chose differently): says nothing about the discharged assertions
						out.PathSamplesSkipped++
					} else {
						dir := filepath.Join(VerifDir, "replays", prop, "mismatch-"+n+"-pathsample")
						os.MkdirAll(dir, 0o755)
						tb, _ := json.MarshalIndent(w.Tape, "", " ")
						os.WriteFile(filepath.Join(dir, "tape.json"), tb, 0o644)
						mb, _ := json.Marshal(map[string]string{"harness": n, "what": "path sample", "kind": "reach", "tier": opt.Tier, "property": prop})
						os.WriteFile(filepath.Join(dir, "meta.json"), mb, 0o644)
						tail := rr.Output
						if len(tail) > 1200 {
							tail = tail[len(tail)-1200:]
						}
						out.Inconclusive = append(out.Inconclusive, fmt.Sprintf("ENGINE-MISMATCH %s: a path on which every assertion was discharged does not run clean natively (tape in %s):\n%s", n, dir, tail))
					}
					continue
				}
				if rr.Reached[w.ID] && !rr.Mismatch {
					out.ReplaysOK++
					rep.Stats[n].WitReplayed++
				} else {
					// a witness may legitimately end in a known-finding failure after the marker; otherwise mismatch
					tail := rr.Output
					if len(tail) > 1200 {
						tail = tail[len(tail)-1200:]
					}
					dir := filepath.Join(VerifDir, "replays", prop, "mismatch-"+n+"-"+w.ID)
					os.MkdirAll(dir, 0o755)
					tb, _ := json.MarshalIndent(w.Tape, "", " ")
					os.WriteFile(filepath.Join(dir, "tape.json"), tb, 0o644)
					mb, _ := json.Marshal(map[string]string{"harness": n, "what": w.ID, "kind": "reach", "tier": opt.Tier, "property": prop})
					os.WriteFile(filepath.Join(dir, "meta.json"), mb, 0o644)
					out.Inconclusive = append(out.Inconclusive, fmt.Sprintf("ENGINE-MISMATCH %s: reach witness %q did not replay natively (tape in %s):\n%s", n, w.ID, dir, tail))
				}
			}
		}
		out.ReplayBuildS = rp.BuildS
	}
	// 4. known findings
	var ks []string
	for k := range rep.Known {
		ks = append(ks, k)
	}
	sort.Strings(ks)
	for _, k := range ks {
		kf := known[k]
		out.Lines = append(out.Lines, fmt.Sprintf("KNOWN-FINDING: property=%s %s: %s", prop, k, kf.What))
		out.KnownPrinted = append(out.KnownPrinted, k)
	}
	for _, m := range out.MissingMarkers {
		out.Inconclusive = append(out.Inconclusive, "VACUOUS marker unreachable: "+m)
	}
	switch {
	case len(out.Confirmed) > 0:
		out.Exit = 1
	case len(out.Inconclusive) > 0:
		out.Exit = 2
	}
	for _, m := range out.Inconclusive {
		out.Lines = append(out.Lines, "INCONCLUSIVE "+m)
	}
	return out
}

// ---- evidence ----

func WriteEvidence(l *Loaded, rep *Report, out *Outcome, opt Options) error {
	names := l.HarnessesFor(opt.Property)
	var samples []interface{}
	obligations, discharged, nontrivial := 0, 0, 0
	unwind := 0
	var panicPaths int
	for _, n := range names {
		st := rep.Stats[n]
		if st == nil {
			continue
		}
		samples = append(samples, st)
		obligations += st.Asserts
		discharged += st.Asserts
		nontrivial += st.Nontrivial
		panicPaths += st.PanicPaths
		if st.UnwindMax > unwind {
			unwind = st.UnwindMax
		}
	}
	discharged -= len(rep.Violations)
	if discharged < 0 {
		discharged = 0
	}
	// hash the repo files that contain encoded functions
	files := map[string]string{}
	var fnList []string
	for _, f := range rep.Funcs {
		fnList = append(fnList, f)
	}
	for _, p := range l.Prog.AllPackages() {
		if !strings.HasPrefix(p.Pkg.Path(), interp.SonicPath) {
			continue
		}
		for _, m := range p.Members {
			if fn, ok := m.(*ssa.Function); ok && fn.Pos().IsValid() {
				file := l.Prog.Fset.Position(fn.Pos()).Filename
				if strings.HasPrefix(file, RepoDir) && !strings.Contains(file, "zz_verif_") && !strings.Contains(file, "/internal/v") {
					if _, ok := files[file]; !ok {
						files[strings.TrimPrefix(file, RepoDir+"/")] = hashFile(file)
					}
				}
			}
		}
	}
	states := rep.Paths + rep.Trans
	if states < 1 {
		states = 1
	}
	trans := rep.Trans
	if trans < 1 {
		trans = 1
	}
	ev := map[string]interface{}{
		"property_id": opt.Property,
		"tier":        opt.Tier,
		"seed":        opt.Seed,
		"level":       "model_checking",
		"wall_s":      out.WallS,
		"violations":  len(out.Confirmed),
		"coverage": map[string]interface{}{
			"states":                        states,
			"transitions":                   trans,
			"traces_validated_against_impl": out.ReplaysOK,
			"samples":                       samples,
			"evaluations":                   rep.Queries,
			"distinct_nontrivial":           nontrivial,
			"rule":                          "bounded symbolic execution of the go/ssa form of the real code; every branch, bounds/nil/division check and assertion is decided by the SMT solver over all values of the symbolic inputs; a path is one decision vector; non-trivial = completed path with >=1 solver-decided decision and >=1 discharged assertion; states = nodes of the symbolic execution tree (decision-vector prefixes), transitions = solver-decided edges",
			"obligations":                   obligations,
			"discharged":                    discharged,
			"paths":                         rep.Paths,
			"queries_sat":                   rep.Sat,
			"queries_unsat":                 rep.Unsat,
			"solver":                        opt.Solver,
			"solver_s":                      rep.SolverTime.Seconds(),
			"load_s":                        out.LoadS,
			"replay_build_s":                out.ReplayBuildS,
			"native_replays_tried":          out.ReplaysTried,
			"passing_paths_replayed_natively": out.PathSamplesOK,
			"passing_path_samples_not_realisable_natively": out.PathSamplesSkipped,
			"functions_encoded":             fnList,
			"repo_files_sha256_prefix":      files,
			"files_substituted":             l.Subst,
			"unwind_max_seen":               unwind,
			"panic_paths":                   panicPaths,
			"known_findings_seen":           out.KnownPrinted,
			"paths_re_executed_after_solver_unknown": rep.SolverRetries,
			"inconclusive":                  out.Inconclusive,
			"exhaustive":                    false,
			"bounds":                        interp.BoundsSeen(),
		},
		"assumptions": assumptionsFor(opt.Property),
	}
	os.MkdirAll(filepath.Join(VerifDir, "evidence"), 0o755)
	b, err := json.MarshalIndent(ev, "", " ")
	if err != nil {
		return err
	}
	return os.WriteFile(filepath.Join(VerifDir, "evidence", opt.Property+".json"), b, 0o644)
}

func assumptionsFor(prop string) []string {
	base := []string{
		"the go/ssa lowering (x/tools v0.29.0, InstantiateGenerics) of /repo's current source is what is executed symbolically; the engine's interpretation of ~35 SSA instruction kinds is validated by native replay of every reach-witness and every counterexample on each run",
		"machine integer semantics (64-bit int, wrap-around); allocations above 2^47 bytes panic, others succeed; capacity chosen by append on reallocation is any value >= the new length",
		"every bound named in coverage.bounds and every vf.Assume in the harness sources under /verif/harness limits the claim",
		"solver: z3 4.8.12 and cvc5 1.0.3 raced incrementally per query (first definite answer wins; z3 5.1.0 / cvc5 one-shot portfolio with 60 s cap on unknown); unknown/timeout/error lines make the run inconclusive, never a pass",
	}
	b, err := os.ReadFile(filepath.Join(VerifDir, "harness", "assumptions.json"))
	if err == nil {
		var m map[string][]string
		if json.Unmarshal(b, &m) == nil {
			base = append(base, m[prop]...)
		}
	}
	return base
}

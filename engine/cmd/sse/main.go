// sse — symbolic executor for talostrading/sonic (see /verif/DESIGN.md).
package main

import (
	"encoding/json"
	"flag"
	"fmt"
	"os"
	"path/filepath"
	"runtime/debug"
	"runtime/pprof"
	"sort"
	"strconv"
	"strings"
	"time"

	"sse/driver"
	"sse/interp"
)

func usage() {
	fmt.Fprintln(os.Stderr, `usage:
  sse check <property> [--tier quick|thorough] [--only substr] [-v]
  sse replay <dir>
  sse list`)
	os.Exit(64)
}

func main() {
	if pf := os.Getenv("SSE_PROF"); pf != "" {
		f, _ := os.Create(pf)
		pprof.StartCPUProfile(f)
		defer pprof.StopCPUProfile()
	}
	code := realMain()
	pprof.StopCPUProfile()
	os.Exit(code)
}

func realMain() int {
	debug.SetGCPercent(400)
	debug.SetMemoryLimit(12 << 30) // the collector works harder instead of letting the heap (400% headroom) outgrow the machine
	if len(os.Args) < 2 {
		usage()
	}
	switch os.Args[1] {
	case "check":
		return cmdCheck(os.Args[2:])
	case "replay":
		return cmdReplay(os.Args[2:])
	case "list":
		return cmdList()
	case "selfcheck":
		return cmdSelfcheck(os.Args[2:])
	default:
		usage()
	}
	return 0
}

var allPatterns = []string{".", "./codec/websocket", "./codec/frame", "./bytes", "./multicast", "./internal", "./net/ipv4", "./internal/vf"}

func mkTmp() string {
	tmp, err := os.MkdirTemp("", "sse-")
	if err != nil {
		fmt.Fprintln(os.Stderr, err)
		os.Exit(2)
	}
	return tmp
}

func cmdList() int {
	tmp := mkTmp()
	defer os.RemoveAll(tmp)
	l, err := driver.Load(tmp, allPatterns)
	if err != nil {
		fmt.Fprintln(os.Stderr, err)
		return 2
	}
	var names []string
	for n := range l.Harness {
		names = append(names, n)
	}
	sort.Strings(names)
	for _, n := range names {
		fmt.Println(n, l.HarnessPkg[n])
	}
	return 0
}

func cmdCheck(args []string) int {
	if len(args) < 1 {
		usage()
	}
	prop := args[0]
	fs := flag.NewFlagSet("check", flag.ExitOnError)
	tier := fs.String("tier", "quick", "quick|thorough")
	only := fs.String("only", "", "substring of harness names to run")
	verbose := fs.Bool("v", false, "verbose")
	workers := fs.Int("j", 0, "workers")
	solver := fs.String("solver", "race", "z3|z3-new|cvc5")
	noReplay := fs.Bool("no-replay", false, "skip native replays (debugging only; result is then inconclusive if anything needed one)")
	keep := fs.Bool("keep", false, "keep temp dir")
	budget := fs.Duration("budget", 0, "stop exploring after this long (result is then inconclusive)")
	noEvidence := fs.Bool("no-evidence", false, "do not write the evidence file (partial debugging runs)")
	fs.Parse(args[1:])
	if t := os.Getenv("VERIF_TIER"); t != "" {
		*tier = t
	}
	seed := int64(0)
	if s := os.Getenv("VERIF_SEED"); s != "" {
		seed, _ = strconv.ParseInt(s, 10, 64)
	}
	t0 := time.Now()
	tmp := mkTmp()
	if !*keep {
		defer os.RemoveAll(tmp)
	} else {
		fmt.Fprintln(os.Stderr, "tmp:", tmp)
	}
	l, err := driver.Load(tmp, allPatterns)
	if err != nil {
		fmt.Println("INCONCLUSIVE load:", err)
		return 2
	}
	names := l.HarnessesFor(prop)
	if *only != "" {
		var f []string
		for _, n := range names {
			if strings.Contains(n, *only) {
				f = append(f, n)
			}
		}
		names = f
	}
	if len(names) == 0 {
		fmt.Println("INCONCLUSIVE no harness for", prop)
		return 2
	}
	interp.Tier = *tier
	opt := driver.Options{Property: prop, Tier: *tier, Seed: seed, Workers: *workers, Solver: *solver, Verbose: *verbose, NoReplay: *noReplay, Budget: *budget}
	loadS := time.Since(t0).Seconds()
	rep, err := driver.Explore(l, names, opt)
	if err != nil {
		fmt.Println("INCONCLUSIVE engine:", err)
		return 2
	}
	out := driver.Finish(l, rep, names, opt, *noReplay)
	out.LoadS = loadS
	out.WallS = time.Since(t0).Seconds()
	if !*noEvidence && *only == "" {
		if err := driver.WriteEvidence(l, rep, out, opt); err != nil {
			fmt.Println("INCONCLUSIVE evidence:", err)
			return 2
		}
	}
	for _, ln := range out.Lines {
		fmt.Println(ln)
	}
	fmt.Printf("sse: property=%s tier=%s harnesses=%d paths=%d queries=%d (sat %d, unsat %d) solver=%.1fs wall=%.1fs exit=%d\n",
		prop, *tier, len(names), rep.Paths, rep.Queries, rep.Sat, rep.Unsat, rep.SolverTime.Seconds(), out.WallS, out.Exit)
	return out.Exit
}

func cmdReplay(args []string) int {
	if len(args) < 1 {
		usage()
	}
	dir := args[0]
	meta, err := os.ReadFile(filepath.Join(dir, "meta.json"))
	if err != nil {
		fmt.Fprintln(os.Stderr, err)
		return 2
	}
	var m struct {
		Harness string `json:"harness"`
		What    string `json:"what"`
		Kind    string `json:"kind"`
		Pos     string `json:"pos"`
		Tier    string `json:"tier"`
	}
	json.Unmarshal(meta, &m)
	tmp := mkTmp()
	defer os.RemoveAll(tmp)
	l, err := driver.Load(tmp, allPatterns)
	if err != nil {
		fmt.Fprintln(os.Stderr, err)
		return 2
	}
	var tape []interp.TapeEntry
	tb, err := os.ReadFile(filepath.Join(dir, "tape.json"))
	if err != nil {
		fmt.Fprintln(os.Stderr, err)
		return 2
	}
	json.Unmarshal(tb, &tape)
	r := driver.NewReplayer(l, m.Tier)
	rr, err := r.Run(m.Harness, tape)
	if err != nil {
		fmt.Fprintln(os.Stderr, err)
		return 2
	}
	fmt.Print(rr.Output)
	v := interp.Violation{Harness: m.Harness, What: m.What, Kind: m.Kind, Pos: m.Pos}
	if driver.Confirms(v, rr) {
		fmt.Printf("REPRODUCED %s %s\n", m.Harness, m.What)
		return 1
	}
	fmt.Println("NOT-REPRODUCED")
	return 0
}

package main

import "fmt"

func cmdSelfcheck(args []string) int {
	fmt.Println("selfcheck: see `sse check SELF`")
	return 0
}

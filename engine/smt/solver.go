// Package smt drives long-lived SMT solver processes over pipes. One Solver
// mirrors every command to several incremental back ends (z3 4.8.12 and
// cvc5 with integer-blasting of bit-vectors), races them on each check-sat
// and falls back to a portfolio of one-shot runs when all give up.
package smt

import (
	"bufio"
	"context"
	"fmt"
	"io"
	"os"
	"os/exec"
	"strconv"
	"strings"
	"sync"
	"time"

	"sse/term"
)

type Result int

const (
	Unsat Result = iota
	Sat
	Unknown
)

func (r Result) String() string { return [...]string{"unsat", "sat", "unknown"}[r] }

type msg struct {
	b    *backend
	line string
	ans  bool // a check-sat answer
	eof  bool
}

type backend struct {
	name   string
	cmd    *exec.Cmd
	wmu    sync.Mutex
	wq     []string
	wcond  *sync.Cond
	closed bool
	dead   bool
	sent   int // check-sat commands sent
	read   int // check-sat answers consumed
	taint  bool // has chewed on a slow query: replaced at the next path boundary (see BeginPath)
}

// limited wraps a solver command so that the process cannot take more than solverMemKB of address space
// (a solver that blows up on one query dies and is restarted / reported unknown instead of taking the machine down).
func limited(args []string) []string {
	return append([]string{"-c", fmt.Sprintf("ulimit -v %d; exec \"$@\"", solverMemKB), "sh"}, args...)
}

var solverMemKB = func() int {
	if v, err := strconv.Atoi(os.Getenv("SSE_SOLVER_MEM_KB")); err == nil && v > 0 {
		return v
	}
	return 4 << 20 // 4 GiB
}()

func startBackend(name string, args []string, pre string, sink chan msg) (*backend, error) {
	cmd := exec.Command("/bin/sh", limited(args)...)
	in, err := cmd.StdinPipe()
	if err != nil {
		return nil, err
	}
	outp, err := cmd.StdoutPipe()
	if err != nil {
		return nil, err
	}
	cmd.Stderr = cmd.Stdout
	if err := cmd.Start(); err != nil {
		return nil, err
	}
	b := &backend{name: name, cmd: cmd}
	b.wcond = sync.NewCond(&b.wmu)
	go func() { // writer: never lets the caller block on a busy solver
		for {
			b.wmu.Lock()
			for len(b.wq) == 0 && !b.closed {
				b.wcond.Wait()
			}
			if b.closed && len(b.wq) == 0 {
				b.wmu.Unlock()
				in.Close()
				return
			}
			q := b.wq
			b.wq = nil
			b.wmu.Unlock()
			for _, s := range q {
				if _, err := io.WriteString(in, s); err != nil {
					return
				}
			}
		}
	}()
	go func() { // reader
		r := bufio.NewReaderSize(outp, 1<<16)
		for {
			line, err := r.ReadString('\n')
			if t := strings.TrimSpace(line); t != "" {
				switch t {
				case "sat", "unsat", "unknown", "timeout":
					sink <- msg{b: b, line: t, ans: true}
				default:
					if strings.Contains(t, "(error") && (strings.Contains(t, "interrupted") || strings.Contains(t, "imeout") || strings.Contains(t, "resource")) {
						sink <- msg{b: b, line: "unknown", ans: true}
					} else {
						sink <- msg{b: b, line: t}
					}
				}
			}
			if err != nil {
				sink <- msg{b: b, eof: true}
				return
			}
		}
	}()
	b.send(pre)
	return b, nil
}

func (b *backend) send(s string) {
	if b.dead || s == "" {
		return
	}
	b.wmu.Lock()
	b.wq = append(b.wq, s)
	b.wcond.Signal()
	b.wmu.Unlock()
}

func (b *backend) close() {
	b.wmu.Lock()
	b.closed = true
	b.wcond.Signal()
	b.wmu.Unlock()
	if b.cmd.Process != nil {
		_ = b.cmd.Process.Kill()
	}
	go b.cmd.Wait()
}

type Solver struct {
	Kind      string
	bs        []*backend
	msgs      chan msg
	defined   map[int32]bool
	declaredA map[int32]bool
	buf       strings.Builder
	Log       io.Writer // optional transcript
	Queries   int
	NSat      int
	NUnsat    int
	NUnknown  int
	Time      time.Duration
	TimeoutMs int
	Err       error
	depth     int
	scoped    []int32 // term ids defined inside kept query scopes
	scopedA   []int32
	marks     [][2]int
	live      []string // commands currently in effect (popped scopes removed)
	liveMarks []int
	liveVars  []*term.T
	varMarks  []int
	FastMs    int
	Escalated int
	EscWins   map[string]int
	Wins      map[string]int
	EscTime   time.Duration
	escModel  map[int32]uint64 // model of the last escalated sat answer (valid until the scope is released)
	satBy     *backend         // back end that answered sat for the open kept scope
	Where     string           // diagnostics: source position of the current query
	spawn     func(name string) (*backend, error)
	Restarts  int
}

// New starts the solver. kind: "race" (z3 + cvc5 int-blasting, default), "z3", "cvc5i", "z3-new", "cvc5".
func New(kind string, timeoutMs int) (*Solver, error) {
	if kind == "" {
		kind = "race"
	}
	s := &Solver{Kind: kind, TimeoutMs: timeoutMs, FastMs: 4000, defined: map[int32]bool{}, declaredA: map[int32]bool{},
		EscWins: map[string]int{}, Wins: map[string]int{}, msgs: make(chan msg, 1<<14)}
	s.spawn = func(name string) (*backend, error) {
		var b *backend
		var err error
		switch name {
		case "z3":
			b, err = startBackend("z3", []string{"/usr/bin/z3", "-in", "-smt2"},
				fmt.Sprintf("(set-option :timeout %d)\n(set-option :produce-models true)\n", s.FastMs), s.msgs)
		case "z3-new":
			b, err = startBackend("z3-new", []string{"z3-new", "-in", "-smt2"},
				fmt.Sprintf("(set-option :timeout %d)\n(set-option :produce-models true)\n", s.FastMs), s.msgs)
		case "cvc5i":
			b, err = startBackend("cvc5i", []string{"cvc5", "--incremental", "--lang=smt2", "--produce-models", "--solve-bv-as-int=sum",
				fmt.Sprintf("--tlimit-per=%d", s.FastMs)}, "(set-logic ALL)\n", s.msgs)
		case "cvc5":
			b, err = startBackend("cvc5", []string{"cvc5", "--incremental", "--lang=smt2", "--produce-models",
				fmt.Sprintf("--tlimit-per=%d", s.FastMs)}, "(set-logic QF_ABV)\n", s.msgs)
		default:
			return nil, fmt.Errorf("unknown solver %q", name)
		}
		return b, err
	}
	add := func(name string) error {
		b, err := s.spawn(name)
		if err != nil {
			return err
		}
		s.bs = append(s.bs, b)
		return nil
	}
	var err error
	if kind == "race" {
		if err = add("z3"); err == nil {
			err = add("cvc5i")
		}
	} else {
		err = add(kind)
	}
	if err != nil {
		s.Close()
		return nil, err
	}
	return s, nil
}

func (s *Solver) Close() {
	for _, b := range s.bs {
		b.close()
	}
	s.bs = nil
}

func (s *Solver) record(str string) {
	for _, ln := range strings.SplitAfter(str, "\n") {
		if ln == "" {
			continue
		}
		switch {
		case strings.HasPrefix(ln, "(push"):
			s.liveMarks = append(s.liveMarks, len(s.live))
			s.varMarks = append(s.varMarks, len(s.liveVars))
		case strings.HasPrefix(ln, "(pop"):
			n := 1
			fmt.Sscanf(ln, "(pop %d)", &n)
			for i := 0; i < n && len(s.liveMarks) > 0; i++ {
				s.live = s.live[:s.liveMarks[len(s.liveMarks)-1]]
				s.liveMarks = s.liveMarks[:len(s.liveMarks)-1]
				s.liveVars = s.liveVars[:s.varMarks[len(s.varMarks)-1]]
				s.varMarks = s.varMarks[:len(s.varMarks)-1]
			}
		default:
			s.live = append(s.live, ln)
		}
	}
}

// send mirrors a state-changing command to every back end.
func (s *Solver) send(str string) {
	s.record(str)
	if s.Log != nil {
		io.WriteString(s.Log, str)
	}
	for _, b := range s.bs {
		b.send(str)
	}
}

func (s *Solver) alive() int {
	n := 0
	for _, b := range s.bs {
		if !b.dead {
			n++
		}
	}
	return n
}

func (s *Solver) kill(b *backend, why string) {
	if b.dead {
		return
	}
	b.dead = true
	b.close()
	if slowLog {
		fmt.Fprintf(os.Stderr, "BACKEND-DEAD %s: %s (%s)\n", b.name, why, s.Where)
	}
	if s.alive() == 0 && s.Err == nil {
		s.Err = fmt.Errorf("all solver back ends failed (last: %s: %s)", b.name, why)
	}
}

// recycleAfter: check-sat commands after which a back end is replaced at the next path boundary.
const recycleAfter = 4000

// slowQuery: a query slower than this marks the back ends that worked on it for replacement.
const slowQuery = 1500 * time.Millisecond

// BeginPath opens the scope of one explored path.
func (s *Solver) BeginPath() {
	// a back end that died or lost synchronisation is replaced by a fresh process (no state is carried between paths)
	for i, b := range s.bs {
		// A back end that has worked on a hard query stays slow afterwards even on trivial ones (measured with
		// z3 4.8.12: after one 3 s query every later check-sat/get-value of the process took ~3 s, pop or not).
		if !b.dead && (b.sent >= recycleAfter || b.taint) {
			// incremental solvers (cvc5 in particular) grow without bound over push/pop; between paths
			// nothing is carried over, so a fresh process is equivalent (the old one goes only once the new one is up)
			if nb, err := s.spawn(b.name); err == nil {
				b.dead = true
				b.close()
				s.bs[i] = nb
				continue
			}
		}
		if b.dead {
			if nb, err := s.spawn(b.name); err == nil {
				s.bs[i] = nb
				s.Restarts++
			}
		}
	}
	if s.alive() > 0 {
		s.Err = nil // errors are per query; a dead solver set stays an error
	}
	s.send("(push 1)\n")
	s.depth = 1
	s.defined = map[int32]bool{}
	s.declaredA = map[int32]bool{}
	s.scoped, s.scopedA, s.marks = nil, nil, nil
}

func (s *Solver) EndPath() {
	s.send(fmt.Sprintf("(pop %d)\n", s.depth))
	s.depth = 0
}

func bvConst(w uint8, k uint64) string {
	if w%4 == 0 {
		return fmt.Sprintf("#x%0*x", int(w/4), k)
	}
	return fmt.Sprintf("(_ bv%d %d)", k, w)
}

func sortOf(w uint8) string {
	if w == 0 {
		return "Bool"
	}
	return fmt.Sprintf("(_ BitVec %d)", w)
}

func (s *Solver) ref(t *term.T) string {
	if t.Op == term.OConst {
		if t.W == 0 {
			if t.K != 0 {
				return "true"
			}
			return "false"
		}
		return bvConst(t.W, t.K)
	}
	return "t" + strconv.Itoa(int(t.ID))
}

func smtName(n string) string { return "|" + n + "|" }

// define emits definitions for all nodes below t (iteratively, to survive deep DAGs).
func (s *Solver) define(t *term.T) {
	if t.Op == term.OConst || s.defined[t.ID] {
		return
	}
	type fr struct {
		t    *term.T
		done bool
	}
	var newVars []*term.T
	stack := []fr{{t, false}}
	for len(stack) > 0 {
		f := stack[len(stack)-1]
		stack = stack[:len(stack)-1]
		n := f.t
		if n.Op == term.OConst || s.defined[n.ID] {
			continue
		}
		if !f.done {
			stack = append(stack, fr{n, true})
			for _, k := range []*term.T{n.A, n.B, n.C} {
				if k != nil && k.Op != term.OConst && !s.defined[k.ID] {
					stack = append(stack, fr{k, false})
				}
			}
			continue
		}
		s.defined[n.ID] = true
		if s.depth > 1 {
			s.scoped = append(s.scoped, n.ID)
		}
		b := &s.buf
		switch n.Op {
		case term.OVar:
			fmt.Fprintf(b, "(declare-const t%d %s) ; %s\n", n.ID, sortOf(n.W), n.Name)
			newVars = append(newVars, n)
			continue
		case term.OSelect:
			if !s.declaredA[n.Arr.ID] {
				s.declaredA[n.Arr.ID] = true
				if s.depth > 1 {
					s.scopedA = append(s.scopedA, n.Arr.ID)
				}
				fmt.Fprintf(b, "(declare-const %s (Array (_ BitVec 64) (_ BitVec 8)))\n", smtName(n.Arr.Name))
			}
			fmt.Fprintf(b, "(define-fun t%d () (_ BitVec 8) (select %s %s))\n", n.ID, smtName(n.Arr.Name), s.ref(n.A))
			newVars = append(newVars, n)
			continue
		}
		fmt.Fprintf(b, "(define-fun t%d () %s ", n.ID, sortOf(n.W))
		switch n.Op {
		case term.OExtract:
			fmt.Fprintf(b, "((_ extract %d %d) %s)", n.K>>8, n.K&0xff, s.ref(n.A))
		case term.OZext:
			fmt.Fprintf(b, "((_ zero_extend %d) %s)", n.W-n.A.W, s.ref(n.A))
		case term.OSext:
			fmt.Fprintf(b, "((_ sign_extend %d) %s)", n.W-n.A.W, s.ref(n.A))
		case term.OIte:
			fmt.Fprintf(b, "(ite %s %s %s)", s.ref(n.A), s.ref(n.B), s.ref(n.C))
		case term.ONot, term.ONeg, term.OBNot:
			fmt.Fprintf(b, "(%s %s)", opName(n.Op), s.ref(n.A))
		default:
			fmt.Fprintf(b, "(%s %s %s)", opName(n.Op), s.ref(n.A), s.ref(n.B))
		}
		b.WriteString(")\n")
	}
	s.send(s.buf.String())
	s.liveVars = append(s.liveVars, newVars...)
	s.buf.Reset()
}

func opName(op term.Op) string {
	switch op {
	case term.OAdd:
		return "bvadd"
	case term.OSub:
		return "bvsub"
	case term.OMul:
		return "bvmul"
	case term.OUDiv:
		return "bvudiv"
	case term.OSDiv:
		return "bvsdiv"
	case term.OURem:
		return "bvurem"
	case term.OSRem:
		return "bvsrem"
	case term.OAnd:
		return "bvand"
	case term.OOr:
		return "bvor"
	case term.OXor:
		return "bvxor"
	case term.OShl:
		return "bvshl"
	case term.OLShr:
		return "bvlshr"
	case term.OAShr:
		return "bvashr"
	case term.ONot:
		return "bvnot"
	case term.ONeg:
		return "bvneg"
	case term.OConcat:
		return "concat"
	case term.OEq:
		return "="
	case term.OUlt:
		return "bvult"
	case term.OUle:
		return "bvule"
	case term.OSlt:
		return "bvslt"
	case term.OSle:
		return "bvsle"
	case term.OBAnd:
		return "and"
	case term.OBOr:
		return "or"
	case term.OBNot:
		return "not"
	}
	panic(fmt.Sprintf("opName %d", op))
}

// Assert adds t permanently to the current path.
func (s *Solver) Assert(t *term.T) {
	s.define(t)
	s.send("(assert " + s.ref(t) + ")\n")
}

// LiveSelects returns the base-array select nodes currently defined.
func (s *Solver) LiveSelects() []*term.T {
	var out []*term.T
	for _, v := range s.liveVars {
		if v.Op == term.OSelect {
			out = append(out, v)
		}
	}
	return out
}

// Declare makes sure a term is defined (so that models can mention it).
func (s *Solver) Declare(t *term.T) { s.define(t) }

var slowLog = os.Getenv("SSE_SLOW") != ""

func (s *Solver) checkSat() Result {
	s.Queries++
	s.satBy = nil
	s.escModel = nil
	t0 := time.Now()
	if s.Log != nil {
		io.WriteString(s.Log, "(check-sat)\n")
	}
	racing := map[*backend]bool{}
	for _, b := range s.bs {
		if b.dead || b.sent-b.read >= 2 {
			continue // dead, or lagging: sits this one out
		}
		b.send("(check-sat)\n")
		b.sent++
		racing[b] = true
	}
	if len(racing) == 0 {
		for _, b := range s.bs {
			if !b.dead {
				b.send("(check-sat)\n")
				b.sent++
				racing[b] = true
				break
			}
		}
	}
	res := Unknown
	var winner *backend
	deadline := time.After(time.Duration(3*s.FastMs+3000) * time.Millisecond)
	waiting := len(racing)
loop:
	for waiting > 0 && s.alive() > 0 {
		select {
		case m := <-s.msgs:
			b := m.b
			if b.dead {
				continue
			}
			if m.eof {
				if racing[b] {
					waiting--
				}
				s.kill(b, "process ended")
				continue
			}
			if !m.ans {
				if strings.Contains(m.line, "(error") {
					if racing[b] {
						waiting--
					}
					s.kill(b, m.line)
				}
				continue
			}
			b.read++
			if b.read < b.sent || !racing[b] {
				continue // stale answer of an earlier query
			}
			waiting--
			if m.line == "sat" {
				res, winner = Sat, b
				break loop
			}
			if m.line == "unsat" {
				res, winner = Unsat, b
				break loop
			}
		case <-deadline:
			break loop
		}
	}
	s.Time += time.Since(t0)
	if time.Since(t0) > slowQuery {
		for b := range racing {
			b.taint = true
		}
	}
	if slowLog && time.Since(t0) > 500*time.Millisecond {
		w := "-"
		if winner != nil {
			w = winner.name
		}
		fmt.Fprintf(os.Stderr, "SLOW %.1fs %v by=%s live=%d %s\n", time.Since(t0).Seconds(), res, w, len(s.live), s.Where)
	}
	if s.Err != nil {
		s.NUnknown++
		return Unknown
	}
	switch res {
	case Sat:
		s.NSat++
		s.Wins[winner.name]++
		s.satBy = winner
		return Sat
	case Unsat:
		s.NUnsat++
		s.Wins[winner.name]++
		return Unsat
	}
	// every incremental back end gave up within its short budget: ask the portfolio
	t1 := time.Now()
	r, model := s.escalate()
	s.EscTime += time.Since(t1)
	s.Time += time.Since(t1)
	s.Escalated++
	if slowLog {
		fmt.Fprintf(os.Stderr, "ESCALATED %.1fs -> %v %v %s\n", time.Since(t1).Seconds(), r, s.EscWins, s.Where)
	}
	switch r {
	case Unsat:
		s.NUnsat++
		return Unsat
	case Sat:
		s.escModel = model
		s.NSat++
		return Sat
	}
	s.NUnknown++
	return Unknown
}

// Check decides path ∧ extra... (extras are not kept).
func (s *Solver) Check(extra ...*term.T) Result {
	for _, e := range extra {
		s.define(e)
	}
	s.send("(push 1)\n")
	for _, e := range extra {
		s.send("(assert " + s.ref(e) + ")\n")
	}
	r := s.checkSat()
	s.escModel = nil
	s.satBy = nil
	s.send("(pop 1)\n")
	return r
}

// CheckKeep is like Check but leaves the scope open so that values can be
// read after Sat; the caller must call Release.
func (s *Solver) CheckKeep(extra ...*term.T) Result {
	for _, e := range extra {
		s.define(e)
	}
	s.send("(push 1)\n")
	s.depth++
	s.marks = append(s.marks, [2]int{len(s.scoped), len(s.scopedA)})
	for _, e := range extra {
		s.send("(assert " + s.ref(e) + ")\n")
	}
	return s.checkSat()
}

func (s *Solver) Release() {
	s.escModel = nil
	s.satBy = nil
	s.send("(pop 1)\n")
	s.depth--
	m := s.marks[len(s.marks)-1]
	s.marks = s.marks[:len(s.marks)-1]
	for _, id := range s.scoped[m[0]:] {
		delete(s.defined, id)
	}
	for _, id := range s.scopedA[m[1]:] {
		delete(s.declaredA, id)
	}
	s.scoped = s.scoped[:m[0]]
	s.scopedA = s.scopedA[:m[1]]
}

// Values reads the model values of terms (after a Sat CheckKeep). The terms
// must have been defined before the CheckKeep.
func (s *Solver) Values(ts []*term.T) []uint64 {
	res := make([]uint64, len(ts))
	if s.escModel != nil {
		memo := map[int32]uint64{}
		for i, t := range ts {
			v, ok := term.Eval(t, s.escModel, memo)
			if !ok && s.Err == nil {
				miss := term.MissingLeaf(t, s.escModel)
				inLive := false
				for _, v := range s.liveVars {
					if miss != nil && v.ID == miss.ID {
						inLive = true
					}
				}
				s.Err = fmt.Errorf("portfolio model lacks a value needed for term t%d (leaf t%d op=%d name=%s inLive=%v model=%d live=%d)", t.ID, miss.ID, miss.Op, miss.Name, inLive, len(s.escModel), len(s.liveVars))
			}
			res[i] = v
		}
		return res
	}
	b := s.satBy
	if b == nil || b.dead {
		if s.Err == nil {
			s.Err = fmt.Errorf("Values: no back end holds a model")
		}
		return res
	}
	const chunk = 200
	for off := 0; off < len(ts); off += chunk {
		end := off + chunk
		if end > len(ts) {
			end = len(ts)
		}
		var sb strings.Builder
		sb.WriteString("(get-value (")
		cnt := 0
		for _, t := range ts[off:end] {
			if t.Op == term.OConst {
				continue
			}
			sb.WriteString(s.ref(t))
			sb.WriteByte(' ')
			cnt++
		}
		sb.WriteString("))\n")
		var vals []uint64
		if cnt > 0 {
			if s.Log != nil {
				io.WriteString(s.Log, sb.String())
			}
			b.send(sb.String())
			vals = s.readValues(b, cnt)
		}
		vi := 0
		for i, t := range ts[off:end] {
			if t.Op == term.OConst {
				res[off+i] = t.K
			} else if vi < len(vals) {
				res[off+i] = vals[vi]
				vi++
			}
		}
	}
	return res
}

func (s *Solver) readValues(b *backend, n int) []uint64 {
	t0 := time.Now()
	defer func() {
		s.Time += time.Since(t0)
		if time.Since(t0) > slowQuery {
			b.taint = true
		}
	}()
	var sb strings.Builder
	depth := 0
	started := false
	timeout := time.After(60 * time.Second)
	for {
		var m msg
		select {
		case m = <-s.msgs:
		case <-timeout:
			s.kill(b, "get-value timed out")
			if s.Err == nil {
				s.Err = fmt.Errorf("get-value timed out")
			}
			return nil
		}
		if m.b != b {
			// a lagging back end reporting on an earlier query
			if m.eof {
				s.kill(m.b, "process ended")
			} else if m.ans {
				m.b.read++
			} else if strings.Contains(m.line, "(error") {
				s.kill(m.b, m.line)
			}
			continue
		}
		if m.eof {
			s.kill(b, "process ended during get-value")
			if s.Err == nil {
				s.Err = fmt.Errorf("solver %s ended during get-value", b.name)
			}
			return nil
		}
		if m.ans {
			b.read++
			continue
		}
		line := m.line
		if strings.Contains(line, "(error") {
			if s.Err == nil {
				s.Err = fmt.Errorf("solver error: %s", line)
			}
			return nil
		}
		sb.WriteString(line)
		sb.WriteByte('\n')
		for _, ch := range line {
			if ch == '(' {
				depth++
				started = true
			} else if ch == ')' {
				depth--
			}
		}
		if started && depth <= 0 {
			break
		}
	}
	vals := parseModelList(sb.String())
	if len(vals) != n && s.Err == nil {
		s.Err = fmt.Errorf("get-value: expected %d values, parsed %d", n, len(vals))
	}
	return vals
}

func parseValueTokens(toks []string, i int) (uint64, int) {
	var v uint64
	if toks[i] == "(" {
		if i+2 < len(toks) && strings.HasPrefix(toks[i+2], "bv") {
			v, _ = strconv.ParseUint(toks[i+2][2:], 10, 64)
		}
		d := 0
		for i < len(toks) {
			if toks[i] == "(" {
				d++
			} else if toks[i] == ")" {
				d--
				if d == 0 {
					i++
					break
				}
			}
			i++
		}
		return v, i
	}
	tk := toks[i]
	switch {
	case tk == "true":
		v = 1
	case strings.HasPrefix(tk, "#x"):
		v, _ = strconv.ParseUint(tk[2:], 16, 64)
	case strings.HasPrefix(tk, "#b"):
		v, _ = strconv.ParseUint(tk[2:], 2, 64)
	}
	return v, i + 1
}

func parseModelList(txt string) []uint64 {
	toks := tokenize(txt)
	var vals []uint64
	i := 0
	if i < len(toks) && toks[i] == "(" {
		i++
	}
	for i < len(toks) && toks[i] == "(" {
		i += 2 // "(" name
		if i >= len(toks) {
			break
		}
		var v uint64
		v, i = parseValueTokens(toks, i)
		vals = append(vals, v)
		if i < len(toks) && toks[i] == ")" {
			i++
		}
	}
	return vals
}

func parseModel(txt string) map[int32]uint64 {
	m := map[int32]uint64{}
	toks := tokenize(txt)
	i := 0
	if i < len(toks) && toks[i] == "(" {
		i++
	}
	for i < len(toks) && toks[i] == "(" {
		i++
		if i >= len(toks) {
			break
		}
		name := toks[i]
		i++
		if i >= len(toks) {
			break
		}
		var v uint64
		v, i = parseValueTokens(toks, i)
		if strings.HasPrefix(name, "t") {
			if id, err := strconv.Atoi(name[1:]); err == nil {
				m[int32(id)] = v
			}
		}
		if i < len(toks) && toks[i] == ")" {
			i++
		}
	}
	return m
}

func tokenize(s string) []string {
	var toks []string
	i := 0
	for i < len(s) {
		ch := s[i]
		switch {
		case ch == '(' || ch == ')':
			toks = append(toks, string(ch))
			i++
		case ch == ' ' || ch == '\n' || ch == '\t' || ch == '\r':
			i++
		case ch == '|':
			j := i + 1
			for j < len(s) && s[j] != '|' {
				j++
			}
			toks = append(toks, s[i:j+1])
			i = j + 1
		default:
			j := i
			for j < len(s) && !strings.ContainsRune("() \n\t\r", rune(s[j])) {
				j++
			}
			toks = append(toks, s[i:j])
			i = j
		}
	}
	return toks
}

type escResult struct {
	who   string
	r     Result
	model map[int32]uint64
}

// escalate decides the currently asserted formula with several solvers
// started in parallel on a self-contained script; first definite answer wins.
func (s *Solver) escalate() (Result, map[int32]uint64) {
	var sb strings.Builder
	for _, ln := range s.live {
		sb.WriteString(ln)
	}
	sb.WriteString("(check-sat)\n")
	if len(s.liveVars) > 0 {
		sb.WriteString("(get-value (")
		for _, v := range s.liveVars {
			fmt.Fprintf(&sb, "t%d ", v.ID)
		}
		sb.WriteString("))\n")
	}
	body := sb.String()
	nvars := len(s.liveVars)
	if d := os.Getenv("SSE_ESCDUMP"); d != "" {
		os.MkdirAll(d, 0o755)
		os.WriteFile(fmt.Sprintf("%s/esc%d_%d.smt2", d, os.Getpid(), s.Escalated), []byte(body), 0o644)
	}
	type cfg struct {
		name string
		args []string
		pre  string
	}
	cfgs := []cfg{
		{"z3-new", []string{"z3-new", "-in", "-smt2"}, "(set-option :produce-models true)\n"},
		{"cvc5", []string{"cvc5", "--lang=smt2", "--produce-models"}, "(set-logic QF_ABV)\n"},
		{"z3-oneshot", []string{"/usr/bin/z3", "-in", "-smt2"}, "(set-option :produce-models true)\n"},
		{"cvc5-bv-as-int", []string{"cvc5", "--lang=smt2", "--produce-models", "--solve-bv-as-int=sum"}, "(set-logic ALL)\n"},
	}
	ctx, cancel := context.WithTimeout(context.Background(), time.Duration(s.TimeoutMs)*time.Millisecond)
	defer cancel()
	ch := make(chan escResult, len(cfgs))
	for _, c := range cfgs {
		go func(c cfg) {
			cmd := exec.CommandContext(ctx, "/bin/sh", limited(c.args)...)
			cmd.Stdin = strings.NewReader(c.pre + body)
			out, runErr := cmd.Output()
			txt := string(out)
			res := escResult{who: c.name, r: Unknown}
			first := strings.TrimSpace(txt)
			if i := strings.Index(first, "\n"); i >= 0 {
				first = strings.TrimSpace(first[:i])
			}
			if strings.Contains(txt, "(error") && first != "unsat" {
				ch <- res
				return
			}
			switch first {
			case "unsat":
				res.r = Unsat
			case "sat":
				if runErr == nil {
					res.model = parseModel(txt[strings.Index(txt, "sat")+3:])
					if len(res.model) >= nvars {
						res.r = Sat
					}
				}
			}
			ch <- res
		}(c)
	}
	for i := 0; i < len(cfgs); i++ {
		r := <-ch
		if r.r != Unknown {
			s.EscWins[r.who]++
			return r.r, r.model
		}
	}
	return Unknown, nil
}

// Package smt drives one long-lived SMT solver process over a pipe.
package smt

import (
	"bufio"
	"context"
	"fmt"
	"io"
	"os"
	"os/exec"
	"strconv"
	"strings"
	"time"

	"sse/term"
)

type Result int

const (
	Unsat Result = iota
	Sat
	Unknown
)

func (r Result) String() string { return [...]string{"unsat", "sat", "unknown"}[r] }

type Solver struct {
	Kind      string // z3 | z3-new | cvc5
	cmd       *exec.Cmd
	in        io.WriteCloser
	out       *bufio.Reader
	defined   map[int32]bool
	declaredA map[int32]bool
	buf       strings.Builder
	Log       io.Writer // optional transcript
	Queries   int
	NSat      int
	NUnsat    int
	NUnknown  int
	Time      time.Duration
	TimeoutMs int
	Err       error
	depth     int
	scoped    []int32 // term ids defined inside kept query scopes
	scopedA   []int32
	marks     [][2]int
	live      []string // commands that are currently in effect (popped scopes removed)
	liveMarks []int
	liveVars  []*term.T
	varMarks  []int
	FastMs    int // first-attempt timeout of the incremental solver
	Escalated int
	EscWins   map[string]int
	EscTime   time.Duration
	pinned    bool
}

func New(kind string, timeoutMs int) (*Solver, error) {
	var cmd *exec.Cmd
	switch kind {
	case "z3":
		cmd = exec.Command("/usr/bin/z3", "-in", "-smt2")
	case "z3-new":
		cmd = exec.Command("z3-new", "-in", "-smt2")
	case "cvc5":
		cmd = exec.Command("cvc5", "--incremental", "--lang=smt2", "--produce-models", fmt.Sprintf("--tlimit-per=%d", timeoutMs))
	default:
		return nil, fmt.Errorf("unknown solver %q", kind)
	}
	in, err := cmd.StdinPipe()
	if err != nil {
		return nil, err
	}
	outp, err := cmd.StdoutPipe()
	if err != nil {
		return nil, err
	}
	cmd.Stderr = cmd.Stdout
	if err := cmd.Start(); err != nil {
		return nil, err
	}
	s := &Solver{Kind: kind, cmd: cmd, in: in, out: bufio.NewReaderSize(outp, 1<<16), TimeoutMs: timeoutMs,
		defined: map[int32]bool{}, declaredA: map[int32]bool{}}
	s.FastMs = timeoutMs
	if kind == "z3" {
		s.FastMs = 2500
	}
	if kind == "cvc5" {
		s.send("(set-logic QF_ABV)\n")
	} else {
		s.send(fmt.Sprintf("(set-option :timeout %d)\n", s.FastMs))
	}
	s.send("(set-option :produce-models true)\n")
	return s, nil
}

func (s *Solver) Close() {
	if s.cmd != nil {
		s.in.Close()
		_ = s.cmd.Process.Kill()
		_ = s.cmd.Wait()
		s.cmd = nil
	}
}

func (s *Solver) record(str string) {
	for _, ln := range strings.SplitAfter(str, "\n") {
		if ln == "" {
			continue
		}
		switch {
		case strings.HasPrefix(ln, "(push"):
			s.liveMarks = append(s.liveMarks, len(s.live))
			s.varMarks = append(s.varMarks, len(s.liveVars))
		case strings.HasPrefix(ln, "(pop"):
			n := 1
			fmt.Sscanf(ln, "(pop %d)", &n)
			for i := 0; i < n && len(s.liveMarks) > 0; i++ {
				s.live = s.live[:s.liveMarks[len(s.liveMarks)-1]]
				s.liveMarks = s.liveMarks[:len(s.liveMarks)-1]
				s.liveVars = s.liveVars[:s.varMarks[len(s.varMarks)-1]]
				s.varMarks = s.varMarks[:len(s.varMarks)-1]
			}
		case strings.HasPrefix(ln, "(check-sat"), strings.HasPrefix(ln, "(get-value"), strings.HasPrefix(ln, "(set-option"):
		default:
			s.live = append(s.live, ln)
		}
	}
}

func (s *Solver) send(str string) {
	s.record(str)
	if s.Log != nil {
		io.WriteString(s.Log, str)
	}
	if _, err := io.WriteString(s.in, str); err != nil && s.Err == nil {
		s.Err = err
	}
}

func (s *Solver) readLine() string {
	line, err := s.out.ReadString('\n')
	if err != nil && s.Err == nil {
		s.Err = fmt.Errorf("solver pipe: %v", err)
	}
	line = strings.TrimSpace(line)
	if strings.Contains(line, "(error") && s.Err == nil {
		s.Err = fmt.Errorf("solver error: %s", line)
	}
	return line
}

// BeginPath opens the scope of one explored path. All definitions made
// afterwards vanish at EndPath.
func (s *Solver) BeginPath() {
	s.send("(push 1)\n")
	s.depth = 1
	s.defined = map[int32]bool{}
	s.declaredA = map[int32]bool{}
	s.scoped, s.scopedA, s.marks = nil, nil, nil
}

func (s *Solver) EndPath() {
	s.send(fmt.Sprintf("(pop %d)\n", s.depth))
	s.depth = 0
}

func bvConst(w uint8, k uint64) string {
	if w%4 == 0 {
		return fmt.Sprintf("#x%0*x", int(w/4), k)
	}
	return fmt.Sprintf("(_ bv%d %d)", k, w)
}

func sortOf(w uint8) string {
	if w == 0 {
		return "Bool"
	}
	return fmt.Sprintf("(_ BitVec %d)", w)
}

func (s *Solver) ref(t *term.T) string {
	if t.Op == term.OConst {
		if t.W == 0 {
			if t.K != 0 {
				return "true"
			}
			return "false"
		}
		return bvConst(t.W, t.K)
	}
	return "t" + strconv.Itoa(int(t.ID))
}

func smtName(n string) string { return "|" + n + "|" }

// define emits definitions for all nodes below t (iteratively, to survive deep DAGs).
func (s *Solver) define(t *term.T) {
	if t.Op == term.OConst || s.defined[t.ID] {
		return
	}
	type fr struct {
		t    *term.T
		done bool
	}
	stack := []fr{{t, false}}
	for len(stack) > 0 {
		f := stack[len(stack)-1]
		stack = stack[:len(stack)-1]
		n := f.t
		if n.Op == term.OConst || s.defined[n.ID] {
			continue
		}
		if !f.done {
			stack = append(stack, fr{n, true})
			for _, k := range []*term.T{n.A, n.B, n.C} {
				if k != nil && k.Op != term.OConst && !s.defined[k.ID] {
					stack = append(stack, fr{k, false})
				}
			}
			continue
		}
		s.defined[n.ID] = true
		if s.depth > 1 {
			s.scoped = append(s.scoped, n.ID)
		}
		b := &s.buf
		switch n.Op {
		case term.OVar:
			fmt.Fprintf(b, "(declare-const t%d %s) ; %s\n", n.ID, sortOf(n.W), n.Name)
			s.liveVars = append(s.liveVars, n)
			continue
		case term.OSelect:
			if !s.declaredA[n.Arr.ID] {
				s.declaredA[n.Arr.ID] = true
				if s.depth > 1 {
					s.scopedA = append(s.scopedA, n.Arr.ID)
				}
				fmt.Fprintf(b, "(declare-const %s (Array (_ BitVec 64) (_ BitVec 8)))\n", smtName(n.Arr.Name))
			}
			fmt.Fprintf(b, "(define-fun t%d () (_ BitVec 8) (select %s %s))\n", n.ID, smtName(n.Arr.Name), s.ref(n.A))
			continue
		}
		fmt.Fprintf(b, "(define-fun t%d () %s ", n.ID, sortOf(n.W))
		switch n.Op {
		case term.OExtract:
			fmt.Fprintf(b, "((_ extract %d %d) %s)", n.K>>8, n.K&0xff, s.ref(n.A))
		case term.OZext:
			fmt.Fprintf(b, "((_ zero_extend %d) %s)", n.W-n.A.W, s.ref(n.A))
		case term.OSext:
			fmt.Fprintf(b, "((_ sign_extend %d) %s)", n.W-n.A.W, s.ref(n.A))
		case term.OIte:
			fmt.Fprintf(b, "(ite %s %s %s)", s.ref(n.A), s.ref(n.B), s.ref(n.C))
		case term.ONot, term.ONeg, term.OBNot:
			fmt.Fprintf(b, "(%s %s)", opName(n.Op), s.ref(n.A))
		default:
			fmt.Fprintf(b, "(%s %s %s)", opName(n.Op), s.ref(n.A), s.ref(n.B))
		}
		b.WriteString(")\n")
	}
	s.send(s.buf.String())
	s.buf.Reset()
}

func opName(op term.Op) string {
	switch op {
	case term.OAdd:
		return "bvadd"
	case term.OSub:
		return "bvsub"
	case term.OMul:
		return "bvmul"
	case term.OUDiv:
		return "bvudiv"
	case term.OSDiv:
		return "bvsdiv"
	case term.OURem:
		return "bvurem"
	case term.OSRem:
		return "bvsrem"
	case term.OAnd:
		return "bvand"
	case term.OOr:
		return "bvor"
	case term.OXor:
		return "bvxor"
	case term.OShl:
		return "bvshl"
	case term.OLShr:
		return "bvlshr"
	case term.OAShr:
		return "bvashr"
	case term.ONot:
		return "bvnot"
	case term.ONeg:
		return "bvneg"
	case term.OConcat:
		return "concat"
	case term.OEq:
		return "="
	case term.OUlt:
		return "bvult"
	case term.OUle:
		return "bvule"
	case term.OSlt:
		return "bvslt"
	case term.OSle:
		return "bvsle"
	case term.OBAnd:
		return "and"
	case term.OBOr:
		return "or"
	case term.OBNot:
		return "not"
	}
	panic(fmt.Sprintf("opName %d", op))
}

// Assert adds t permanently to the current path.
func (s *Solver) Assert(t *term.T) {
	s.define(t)
	s.send("(assert " + s.ref(t) + ")\n")
}

// Declare makes sure a variable is declared (so that models mention it).
func (s *Solver) Declare(t *term.T) { s.define(t) }

func (s *Solver) checkSat() Result {
	s.Queries++
	t0 := time.Now()
	s.send("(check-sat)\n")
	line := s.readLine()
	for line == "" && s.Err == nil {
		line = s.readLine()
	}
	s.Time += time.Since(t0)
	switch line {
	case "sat":
		s.NSat++
		return Sat
	case "unsat":
		s.NUnsat++
		return Unsat
	}
	if s.Err != nil || s.Kind != "z3" {
		s.NUnknown++
		return Unknown
	}
	// the incremental solver gave up within its short budget: ask the portfolio
	t1 := time.Now()
	r, model := s.escalate()
	s.EscTime += time.Since(t1)
	s.Time += time.Since(t1)
	s.Escalated++
	switch r {
	case Unsat:
		s.NUnsat++
		return Unsat
	case Sat:
		// pin the inputs so that the live solver can produce the same model cheaply
		var sb strings.Builder
		for _, v := range s.liveVars {
			if val, ok := model[v.ID]; ok {
				if v.W == 0 {
					if val != 0 {
						fmt.Fprintf(&sb, "(assert t%d)\n", v.ID)
					} else {
						fmt.Fprintf(&sb, "(assert (not t%d))\n", v.ID)
					}
				} else {
					fmt.Fprintf(&sb, "(assert (= t%d %s))\n", v.ID, bvConst(v.W, val))
				}
			}
		}
		s.send(fmt.Sprintf("(set-option :timeout %d)\n", s.TimeoutMs))
		s.send(sb.String())
		s.send("(check-sat)\n")
		line = s.readLine()
		for line == "" && s.Err == nil {
			line = s.readLine()
		}
		s.send(fmt.Sprintf("(set-option :timeout %d)\n", s.FastMs))
		if line == "sat" {
			s.NSat++
			return Sat
		}
		if line == "unsat" && s.Err == nil {
			s.Err = fmt.Errorf("solver disagreement: portfolio model rejected by z3")
		}
	}
	s.NUnknown++
	return Unknown
}

type escResult struct {
	who   string
	r     Result
	model map[int32]uint64
}

// escalate decides the currently asserted formula with several solvers
// started in parallel on a self-contained script; first definite answer wins.
func (s *Solver) escalate() (Result, map[int32]uint64) {
	var sb strings.Builder
	for _, ln := range s.live {
		if strings.HasPrefix(ln, "(push") {
			continue
		}
		sb.WriteString(ln)
	}
	sb.WriteString("(check-sat)\n")
	if len(s.liveVars) > 0 {
		sb.WriteString("(get-value (")
		for _, v := range s.liveVars {
			fmt.Fprintf(&sb, "t%d ", v.ID)
		}
		sb.WriteString("))\n")
	}
	body := sb.String()
	type cfg struct {
		name string
		args []string
		pre  string
	}
	cfgs := []cfg{
		{"cvc5-bv-as-int", []string{"cvc5", "--lang=smt2", "--produce-models", "--solve-bv-as-int=sum"}, "(set-logic ALL)\n"},
		{"z3-new", []string{"z3-new", "-in", "-smt2"}, "(set-option :produce-models true)\n"},
		{"cvc5", []string{"cvc5", "--lang=smt2", "--produce-models"}, "(set-logic QF_ABV)\n"},
		{"z3-oneshot", []string{"/usr/bin/z3", "-in", "-smt2"}, "(set-option :produce-models true)\n"},
	}
	ctx, cancel := context.WithTimeout(context.Background(), time.Duration(s.TimeoutMs)*time.Millisecond)
	defer cancel()
	ch := make(chan escResult, len(cfgs))
	for _, c := range cfgs {
		go func(c cfg) {
			cmd := exec.CommandContext(ctx, c.args[0], c.args[1:]...)
			cmd.Stdin = strings.NewReader(c.pre + body)
			out, _ := cmd.Output()
			txt := string(out)
			res := escResult{who: c.name, r: Unknown}
			first := strings.TrimSpace(txt)
			if i := strings.Index(first, "\n"); i >= 0 {
				first = strings.TrimSpace(first[:i])
			}
			if strings.Contains(txt, "(error") && first != "unsat" {
				ch <- res
				return
			}
			switch first {
			case "unsat":
				res.r = Unsat
			case "sat":
				res.r = Sat
				rest := txt[strings.Index(txt, "sat")+3:]
				res.model = parseModel(rest)
			}
			ch <- res
		}(c)
	}
	if d := os.Getenv("SSE_ESCDUMP"); d != "" {
		os.MkdirAll(d, 0o755)
		os.WriteFile(fmt.Sprintf("%s/esc%d_%d.smt2", d, os.Getpid(), s.Escalated), []byte(body), 0o644)
	}
	for i := 0; i < len(cfgs); i++ {
		r := <-ch
		if r.r != Unknown {
			if s.EscWins == nil {
				s.EscWins = map[string]int{}
			}
			s.EscWins[r.who]++
			return r.r, r.model
		}
	}
	return Unknown, nil
}

func parseModel(txt string) map[int32]uint64 {
	m := map[int32]uint64{}
	toks := tokenize(txt)
	i := 0
	if i < len(toks) && toks[i] == "(" {
		i++
	}
	for i < len(toks) && toks[i] == "(" {
		i++
		if i >= len(toks) {
			break
		}
		name := toks[i]
		i++
		var v uint64
		if i < len(toks) && toks[i] == "(" {
			if i+2 < len(toks) && strings.HasPrefix(toks[i+2], "bv") {
				v, _ = strconv.ParseUint(toks[i+2][2:], 10, 64)
			}
			d := 0
			for i < len(toks) {
				if toks[i] == "(" {
					d++
				} else if toks[i] == ")" {
					d--
					if d == 0 {
						i++
						break
					}
				}
				i++
			}
		} else if i < len(toks) {
			tk := toks[i]
			switch {
			case tk == "true":
				v = 1
			case strings.HasPrefix(tk, "#x"):
				v, _ = strconv.ParseUint(tk[2:], 16, 64)
			case strings.HasPrefix(tk, "#b"):
				v, _ = strconv.ParseUint(tk[2:], 2, 64)
			}
			i++
		}
		if strings.HasPrefix(name, "t") {
			if id, err := strconv.Atoi(name[1:]); err == nil {
				m[int32(id)] = v
			}
		}
		if i < len(toks) && toks[i] == ")" {
			i++
		}
	}
	return m
}

// Check decides path ∧ extra... (extras are not kept).
func (s *Solver) Check(extra ...*term.T) Result {
	for _, e := range extra {
		s.define(e)
	}
	s.send("(push 1)\n")
	for _, e := range extra {
		s.send("(assert " + s.ref(e) + ")\n")
	}
	r := s.checkSat()
	s.send("(pop 1)\n")
	return r
}

// CheckKeep is like Check but on Sat leaves the scope open so that values
// can be read; the caller must call Release.
func (s *Solver) CheckKeep(extra ...*term.T) Result {
	for _, e := range extra {
		s.define(e)
	}
	s.send("(push 1)\n")
	s.depth++
	s.marks = append(s.marks, [2]int{len(s.scoped), len(s.scopedA)})
	for _, e := range extra {
		s.send("(assert " + s.ref(e) + ")\n")
	}
	return s.checkSat()
}

func (s *Solver) Release() {
	s.send("(pop 1)\n")
	s.depth--
	m := s.marks[len(s.marks)-1]
	s.marks = s.marks[:len(s.marks)-1]
	for _, id := range s.scoped[m[0]:] {
		delete(s.defined, id)
	}
	for _, id := range s.scopedA[m[1]:] {
		delete(s.declaredA, id)
	}
	s.scoped = s.scoped[:m[0]]
	s.scopedA = s.scopedA[:m[1]]
}

// Values reads the model values of terms (after a Sat CheckKeep). The terms
// must already be defined.
func (s *Solver) Values(ts []*term.T) []uint64 {
	res := make([]uint64, len(ts))
	const chunk = 200
	for off := 0; off < len(ts); off += chunk {
		end := off + chunk
		if end > len(ts) {
			end = len(ts)
		}
		var b strings.Builder
		b.WriteString("(get-value (")
		cnt := 0
		for _, t := range ts[off:end] {
			if t.Op == term.OConst {
				continue
			}
			b.WriteString(s.ref(t))
			b.WriteByte(' ')
			cnt++
		}
		b.WriteString("))\n")
		var vals []uint64
		if cnt > 0 {
			s.send(b.String())
			vals = s.readValues(cnt)
		}
		vi := 0
		for i, t := range ts[off:end] {
			if t.Op == term.OConst {
				res[off+i] = t.K
			} else if vi < len(vals) {
				res[off+i] = vals[vi]
				vi++
			}
		}
	}
	return res
}

// DefineForValue makes terms available to Values while a kept scope is open.
func (s *Solver) DefineForValue(ts []*term.T) {
	for _, t := range ts {
		s.define(t)
	}
}

func (s *Solver) readValues(n int) []uint64 {
	// read until parentheses balance
	var sb strings.Builder
	depth := 0
	started := false
	for {
		line, err := s.out.ReadString('\n')
		if err != nil {
			if s.Err == nil {
				s.Err = fmt.Errorf("solver pipe: %v", err)
			}
			return nil
		}
		if strings.Contains(line, "(error") && s.Err == nil {
			s.Err = fmt.Errorf("solver error: %s", strings.TrimSpace(line))
			return nil
		}
		sb.WriteString(line)
		for _, ch := range line {
			if ch == '(' {
				depth++
				started = true
			} else if ch == ')' {
				depth--
			}
		}
		if started && depth <= 0 {
			break
		}
	}
	txt := sb.String()
	// entries look like (tN VALUE); VALUE is #x.., #b.., true, false, or (_ bvK W)
	vals := make([]uint64, 0, n)
	toks := tokenize(txt)
	// toks: ( ( name val ) ( name val ) ... )
	i := 0
	if i < len(toks) && toks[i] == "(" {
		i++
	}
	for i < len(toks) && toks[i] == "(" {
		i++ // (
		i++ // name
		if i >= len(toks) {
			break
		}
		var v uint64
		if toks[i] == "(" {
			// (_ bvK W)
			if i+2 < len(toks) && strings.HasPrefix(toks[i+2], "bv") {
				v, _ = strconv.ParseUint(toks[i+2][2:], 10, 64)
			}
			d := 0
			for i < len(toks) {
				if toks[i] == "(" {
					d++
				} else if toks[i] == ")" {
					d--
					if d == 0 {
						i++
						break
					}
				}
				i++
			}
		} else {
			tk := toks[i]
			switch {
			case tk == "true":
				v = 1
			case tk == "false":
				v = 0
			case strings.HasPrefix(tk, "#x"):
				v, _ = strconv.ParseUint(tk[2:], 16, 64)
			case strings.HasPrefix(tk, "#b"):
				v, _ = strconv.ParseUint(tk[2:], 2, 64)
			}
			i++
		}
		vals = append(vals, v)
		if i < len(toks) && toks[i] == ")" {
			i++
		}
	}
	if len(vals) != n && s.Err == nil {
		s.Err = fmt.Errorf("get-value: expected %d values, parsed %d from %q", n, len(vals), txt)
	}
	return vals
}

func tokenize(s string) []string {
	var toks []string
	i := 0
	for i < len(s) {
		ch := s[i]
		switch {
		case ch == '(' || ch == ')':
			toks = append(toks, string(ch))
			i++
		case ch == ' ' || ch == '\n' || ch == '\t' || ch == '\r':
			i++
		case ch == '|':
			j := i + 1
			for j < len(s) && s[j] != '|' {
				j++
			}
			toks = append(toks, s[i:j+1])
			i = j + 1
		default:
			j := i
			for j < len(s) && !strings.ContainsRune("() \n\t\r", rune(s[j])) {
				j++
			}
			toks = append(toks, s[i:j])
			i = j
		}
	}
	return toks
}

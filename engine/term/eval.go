package term

// Eval computes the value of t under a model giving values to variables
// (by term id) and to base-array selects (by term id of the OSelect node).
// ok=false if some needed leaf has no value.
func Eval(t *T, model map[int32]uint64, memo map[int32]uint64) (uint64, bool) {
	if t.Op == OConst {
		return t.K, true
	}
	if v, ok := memo[t.ID]; ok {
		return v, true
	}
	var r uint64
	switch t.Op {
	case OVar, OSelect:
		v, ok := model[t.ID]
		if !ok {
			return 0, false
		}
		r = v
	default:
		var a, b, c uint64
		var ok bool
		if t.A != nil {
			if a, ok = Eval(t.A, model, memo); !ok {
				return 0, false
			}
		}
		if t.Op == OIte {
			// lazy: only the taken side needs a value
			if a != 0 {
				if r, ok = Eval(t.B, model, memo); !ok {
					return 0, false
				}
			} else {
				if r, ok = Eval(t.C, model, memo); !ok {
					return 0, false
				}
			}
			memo[t.ID] = r
			return r, true
		}
		if t.Op == OBAnd && a == 0 {
			memo[t.ID] = 0
			return 0, true
		}
		if t.Op == OBOr && a != 0 {
			memo[t.ID] = 1
			return 1, true
		}
		if t.B != nil {
			if b, ok = Eval(t.B, model, memo); !ok {
				return 0, false
			}
		}
		_ = c
		w := t.W
		aw := uint8(0)
		if t.A != nil {
			aw = t.A.W
		}
		bl := func(x bool) uint64 {
			if x {
				return 1
			}
			return 0
		}
		switch t.Op {
		case OAdd:
			r = a + b
		case OSub:
			r = a - b
		case OMul:
			r = a * b
		case OUDiv:
			if b == 0 {
				r = mask(w)
			} else {
				r = a / b
			}
		case OURem:
			if b == 0 {
				r = a
			} else {
				r = a % b
			}
		case OSDiv:
			sa, sb := sext(a, aw), sext(b, aw)
			switch {
			case sb == 0:
				if sa >= 0 {
					r = mask(w)
				} else {
					r = 1
				}
			case sb == -1:
				r = uint64(-sa)
			default:
				r = uint64(sa / sb)
			}
		case OSRem:
			sa, sb := sext(a, aw), sext(b, aw)
			switch {
			case sb == 0:
				r = a
			case sb == -1:
				r = 0
			default:
				r = uint64(sa % sb)
			}
		case OAnd:
			r = a & b
		case OOr:
			r = a | b
		case OXor:
			r = a ^ b
		case OShl:
			if b >= uint64(w) {
				r = 0
			} else {
				r = a << b
			}
		case OLShr:
			if b >= uint64(w) {
				r = 0
			} else {
				r = a >> b
			}
		case OAShr:
			if b >= uint64(w) {
				b = uint64(w) - 1
			}
			r = uint64(sext(a, aw) >> b)
		case ONot:
			r = ^a
		case ONeg:
			r = -a
		case OExtract:
			lo := uint8(t.K & 0xff)
			r = a >> lo
		case OZext:
			r = a
		case OSext:
			r = uint64(sext(a, aw))
		case OEq:
			r = bl(a == b)
		case OUlt:
			r = bl(a < b)
		case OUle:
			r = bl(a <= b)
		case OSlt:
			r = bl(sext(a, aw) < sext(b, aw))
		case OSle:
			r = bl(sext(a, aw) <= sext(b, aw))
		case OBAnd:
			r = bl(a != 0 && b != 0)
		case OBOr:
			r = bl(a != 0 || b != 0)
		case OBNot:
			r = bl(a == 0)
		default:
			return 0, false
		}
		if w != 0 {
			r &= mask(w)
		}
	}
	memo[t.ID] = r
	return r, true
}

// MissingLeaf finds a variable/select leaf of t that the model does not define.
func MissingLeaf(t *T, model map[int32]uint64) *T {
	seen := map[int32]bool{}
	var walk func(t *T) *T
	walk = func(t *T) *T {
		if t == nil || t.Op == OConst || seen[t.ID] {
			return nil
		}
		seen[t.ID] = true
		if t.Op == OVar || t.Op == OSelect {
			if _, ok := model[t.ID]; !ok {
				return t
			}
			return nil
		}
		for _, k := range []*T{t.A, t.B, t.C} {
			if m := walk(k); m != nil {
				return m
			}
		}
		return nil
	}
	return walk(t)
}

// Package term implements hash-consed bit-vector / boolean terms and
// functional byte-array expressions with eager constant folding.
// A Ctx lives for exactly one explored path.
package term

import (
	"fmt"
	"math/bits"
)

type Op uint8

const (
	OConst Op = iota
	OVar
	OAdd
	OSub
	OMul
	OUDiv
	OSDiv
	OURem
	OSRem
	OAnd
	OOr
	OXor
	OShl
	OLShr
	OAShr
	ONot
	ONeg
	OExtract // K = hi<<8 | lo
	OZext    // to width W
	OSext
	OConcat
	OIte
	OSelect
	OEq
	OUlt
	OUle
	OSlt
	OSle
	OBAnd
	OBOr
	OBNot
)

var opNames = map[Op]string{OAdd: "bvadd", OSub: "bvsub", OMul: "bvmul", OUDiv: "bvudiv", OSDiv: "bvsdiv",
	OURem: "bvurem", OSRem: "bvsrem", OAnd: "bvand", OOr: "bvor", OXor: "bvxor", OShl: "bvshl", OLShr: "bvlshr",
	OAShr: "bvashr", ONot: "bvnot", ONeg: "bvneg", OConcat: "concat", OIte: "ite", OEq: "=", OUlt: "bvult",
	OUle: "bvule", OSlt: "bvslt", OSle: "bvsle", OBAnd: "and", OBOr: "or", OBNot: "not"}

// T is a term. W==0 means Bool (K=0 false, K=1 true for constants).
type T struct {
	Op      Op
	W       uint8
	K       uint64
	A, B, C *T
	Arr     *Arr
	Name    string
	ID      int32
}

type AKind uint8

const (
	AZero AKind = iota
	ABase
	AStore
	ACopy
	AConstFill // every element = Val (used for garbage-free fills)
)

// Arr is a functional array BV64 -> BV8.
type Arr struct {
	Kind AKind
	Name string
	Base *Arr
	Idx  *T // store index
	Val  *T // store value
	Src  *Arr
	DOff *T
	SOff *T
	N    *T
	ID   int32
	// Ring > 0: every index is taken modulo Ring before use (power-of-two not required; see SelectRing)
}

type key struct {
	op      Op
	w       uint8
	k       uint64
	a, b, c int32
	arr     int32
}

type Ctx struct {
	tab    map[key]*T
	nextID int32
	nextA  int32
	Vars   []*T
	Bases  []*Arr
	selMem map[[2]int32]*T
	True   *T
	False  *T
}

func NewCtx() *Ctx {
	c := &Ctx{tab: make(map[key]*T, 1024), selMem: map[[2]int32]*T{}}
	c.False = c.mk(OConst, 0, 0, nil, nil, nil, nil)
	c.True = c.mk(OConst, 0, 1, nil, nil, nil, nil)
	return c
}

func id(t *T) int32 {
	if t == nil {
		return -1
	}
	return t.ID
}

func (c *Ctx) mk(op Op, w uint8, k uint64, a, b, cc *T, arr *Arr) *T {
	ky := key{op, w, k, id(a), id(b), id(cc), -1}
	if arr != nil {
		ky.arr = arr.ID
	}
	if t, ok := c.tab[ky]; ok {
		return t
	}
	t := &T{Op: op, W: w, K: k, A: a, B: b, C: cc, Arr: arr, ID: c.nextID}
	c.nextID++
	c.tab[ky] = t
	return t
}

func mask(w uint8) uint64 {
	if w >= 64 {
		return ^uint64(0)
	}
	return (uint64(1) << w) - 1
}

func (c *Ctx) Const(w uint8, v uint64) *T {
	if w == 0 {
		if v != 0 {
			return c.True
		}
		return c.False
	}
	return c.mk(OConst, w, v&mask(w), nil, nil, nil, nil)
}

func (c *Ctx) Bool(b bool) *T {
	if b {
		return c.True
	}
	return c.False
}

// Var makes a fresh input variable (never hash-consed with another).
func (c *Ctx) Var(w uint8, name string) *T {
	t := &T{Op: OVar, W: w, Name: fmt.Sprintf("%s!%d", name, len(c.Vars)), ID: c.nextID}
	c.nextID++
	c.Vars = append(c.Vars, t)
	return t
}

func (t *T) IsConst() bool { return t.Op == OConst }
func (t *T) IsTrue() bool  { return t.Op == OConst && t.W == 0 && t.K == 1 }
func (t *T) IsFalse() bool { return t.Op == OConst && t.W == 0 && t.K == 0 }

// SInt returns the constant as a sign-extended int64.
func (t *T) SInt() int64 {
	if t.W >= 64 || t.W == 0 {
		return int64(t.K)
	}
	sh := 64 - uint(t.W)
	return int64(t.K<<sh) >> sh
}

func sext(v uint64, w uint8) int64 {
	if w >= 64 {
		return int64(v)
	}
	sh := 64 - uint(w)
	return int64(v<<sh) >> sh
}

// ---- bit-vector operations ----

func (c *Ctx) Bin(op Op, a, b *T) *T {
	if a.W != b.W {
		panic(fmt.Sprintf("term: width mismatch %d vs %d in %v", a.W, b.W, opNames[op]))
	}
	w := a.W
	if a.IsConst() && b.IsConst() {
		x, y := a.K, b.K
		switch op {
		case OAdd:
			return c.Const(w, x+y)
		case OSub:
			return c.Const(w, x-y)
		case OMul:
			return c.Const(w, x*y)
		case OAnd:
			return c.Const(w, x&y)
		case OOr:
			return c.Const(w, x|y)
		case OXor:
			return c.Const(w, x^y)
		case OShl:
			if y >= uint64(w) {
				return c.Const(w, 0)
			}
			return c.Const(w, x<<y)
		case OLShr:
			if y >= uint64(w) {
				return c.Const(w, 0)
			}
			return c.Const(w, x>>y)
		case OAShr:
			sx := sext(x, w)
			if y >= uint64(w) {
				y = uint64(w) - 1
			}
			return c.Const(w, uint64(sx>>y))
		case OUDiv:
			if y != 0 {
				return c.Const(w, x/y)
			}
		case OURem:
			if y != 0 {
				return c.Const(w, x%y)
			}
		case OSDiv:
			if y != 0 {
				sx, sy := sext(x, w), sext(y, w)
				if sy == -1 {
					return c.Const(w, uint64(-sx))
				}
				return c.Const(w, uint64(sx/sy))
			}
		case OSRem:
			if y != 0 {
				sx, sy := sext(x, w), sext(y, w)
				if sy == -1 {
					return c.Const(w, 0)
				}
				return c.Const(w, uint64(sx%sy))
			}
		}
	}
	// identities
	switch op {
	case OAdd:
		if a.IsConst() && !b.IsConst() {
			a, b = b, a
		}
		if b.IsConst() && b.K == 0 {
			return a
		}
		// (x + k1) + k2
		if b.IsConst() && a.Op == OAdd && a.B.IsConst() {
			return c.Bin(OAdd, a.A, c.Const(w, a.B.K+b.K))
		}
		// (x - y) + y  => x
		if a.Op == OSub && a.B == b {
			return a.A
		}
		if b.Op == OSub && b.B == a {
			return b.A
		}
	case OSub:
		if b.IsConst() {
			if b.K == 0 {
				return a
			}
			return c.Bin(OAdd, a, c.Const(w, -b.K))
		}
		if a == b {
			return c.Const(w, 0)
		}
		// (x + y) - y => x ; (x + y) - x => y
		if a.Op == OAdd {
			if a.B == b {
				return a.A
			}
			if a.A == b {
				return a.B
			}
			// (x + k) - (x + k2)
			if b.Op == OAdd && a.A == b.A && a.B.IsConst() && b.B.IsConst() {
				return c.Const(w, a.B.K-b.B.K)
			}
			// (x + k) - (y) where y = x + k' handled above; (x+k) - x handled
		}
		if b.Op == OAdd && b.A == a && b.B.IsConst() {
			return c.Const(w, -b.B.K)
		}
	case OMul:
		if a.IsConst() && !b.IsConst() {
			a, b = b, a
		}
		if b.IsConst() {
			if b.K == 0 {
				return b
			}
			if b.K == 1 {
				return a
			}
			if bits.OnesCount64(b.K) == 1 {
				return c.Bin(OShl, a, c.Const(w, uint64(bits.TrailingZeros64(b.K))))
			}
		}
	case OAnd:
		if a.IsConst() && !b.IsConst() {
			a, b = b, a
		}
		if b.IsConst() {
			if b.K == 0 {
				return b
			}
			if b.K == mask(w) {
				return a
			}
		}
		if a == b {
			return a
		}
	case OOr:
		if a.IsConst() && !b.IsConst() {
			a, b = b, a
		}
		if b.IsConst() {
			if b.K == 0 {
				return a
			}
			if b.K == mask(w) {
				return b
			}
		}
		if a == b {
			return a
		}
	case OXor:
		if a.IsConst() && !b.IsConst() {
			a, b = b, a
		}
		if b.IsConst() && b.K == 0 {
			return a
		}
		if a == b {
			return c.Const(w, 0)
		}
		// (x ^ y) ^ y => x   (masking followed by unmasking)
		if a.Op == OXor {
			if a.B == b {
				return a.A
			}
			if a.A == b {
				return a.B
			}
		}
		if b.Op == OXor {
			if b.B == a {
				return b.A
			}
			if b.A == a {
				return b.B
			}
		}
	case OShl, OLShr, OAShr:
		if b.IsConst() && b.K == 0 {
			return a
		}
		if b.IsConst() && b.K >= uint64(w) && op != OAShr {
			return c.Const(w, 0)
		}
	case OUDiv, OSDiv:
		if b.IsConst() && b.K == 1 {
			return a
		}
		if op == OUDiv && b.IsConst() && bits.OnesCount64(b.K) == 1 {
			return c.Bin(OLShr, a, c.Const(w, uint64(bits.TrailingZeros64(b.K))))
		}
	case OURem:
		if b.IsConst() && bits.OnesCount64(b.K) == 1 {
			return c.Bin(OAnd, a, c.Const(w, b.K-1))
		}
	}
	return c.mk(op, w, 0, a, b, nil, nil)
}

func (c *Ctx) Add(a, b *T) *T { return c.Bin(OAdd, a, b) }
func (c *Ctx) Sub(a, b *T) *T { return c.Bin(OSub, a, b) }

func (c *Ctx) Not(a *T) *T {
	if a.IsConst() {
		return c.Const(a.W, ^a.K)
	}
	if a.Op == ONot {
		return a.A
	}
	return c.mk(ONot, a.W, 0, a, nil, nil, nil)
}

func (c *Ctx) Neg(a *T) *T {
	if a.IsConst() {
		return c.Const(a.W, -a.K)
	}
	return c.mk(ONeg, a.W, 0, a, nil, nil, nil)
}

func (c *Ctx) Extract(a *T, hi, lo uint8) *T {
	w := hi - lo + 1
	if lo == 0 && w == a.W {
		return a
	}
	if a.IsConst() {
		return c.Const(w, a.K>>lo)
	}
	if (a.Op == OZext || a.Op == OSext) && lo == 0 && w <= a.A.W {
		return c.Extract(a.A, hi, 0)
	}
	if a.Op == OZext && lo >= a.A.W {
		return c.Const(w, 0)
	}
	return c.mk(OExtract, w, uint64(hi)<<8|uint64(lo), a, nil, nil, nil)
}

func (c *Ctx) Zext(a *T, w uint8) *T {
	if w == a.W {
		return a
	}
	if w < a.W {
		return c.Extract(a, w-1, 0)
	}
	if a.IsConst() {
		return c.Const(w, a.K)
	}
	if a.Op == OZext {
		return c.Zext(a.A, w)
	}
	return c.mk(OZext, w, 0, a, nil, nil, nil)
}

func (c *Ctx) Sext(a *T, w uint8) *T {
	if w == a.W {
		return a
	}
	if w < a.W {
		return c.Extract(a, w-1, 0)
	}
	if a.IsConst() {
		return c.Const(w, uint64(sext(a.K, a.W)))
	}
	if a.Op == OZext {
		return c.Zext(a.A, w)
	}
	return c.mk(OSext, w, 0, a, nil, nil, nil)
}

// ---- boolean / comparison ----

func (c *Ctx) Ite(cond, a, b *T) *T {
	if cond.IsTrue() {
		return a
	}
	if cond.IsFalse() {
		return b
	}
	if a == b {
		return a
	}
	if a.W != b.W {
		panic("term: ite width mismatch")
	}
	if a.W == 0 {
		if a.IsTrue() && b.IsFalse() {
			return cond
		}
		if a.IsFalse() && b.IsTrue() {
			return c.BNot(cond)
		}
	}
	if cond.Op == OBNot {
		return c.Ite(cond.A, b, a)
	}
	return c.mk(OIte, a.W, 0, cond, a, b, nil)
}

func (c *Ctx) Eq(a, b *T) *T {
	if a == b {
		return c.True
	}
	if a.W != b.W {
		panic(fmt.Sprintf("term: eq width mismatch %d vs %d", a.W, b.W))
	}
	if a.IsConst() && b.IsConst() {
		return c.Bool(a.K == b.K)
	}
	if a.IsConst() {
		a, b = b, a
	}
	if a.W == 0 {
		if b.IsTrue() {
			return a
		}
		if b.IsFalse() {
			return c.BNot(a)
		}
	}
	if b.IsConst() {
		// ite(c, k1, k2) == k
		if a.Op == OIte && (a.B.IsConst() || a.C.IsConst()) {
			return c.Ite(a.A, c.Eq(a.B, b), c.Eq(a.C, b))
		}
		// x + k1 == k2
		if a.Op == OAdd && a.B.IsConst() {
			return c.Eq(a.A, c.Const(a.W, b.K-a.B.K))
		}
		// zext(x) == k
		if a.Op == OZext {
			if b.K>>a.A.W != 0 {
				return c.False
			}
			return c.Eq(a.A, c.Const(a.A.W, b.K))
		}
	}
	if a.ID > b.ID && !b.IsConst() {
		a, b = b, a
	}
	return c.mk(OEq, 0, 0, a, b, nil, nil)
}

func (c *Ctx) Cmp(op Op, a, b *T) *T {
	if a.W != b.W {
		panic("term: cmp width mismatch")
	}
	if a.IsConst() && b.IsConst() {
		switch op {
		case OUlt:
			return c.Bool(a.K < b.K)
		case OUle:
			return c.Bool(a.K <= b.K)
		case OSlt:
			return c.Bool(sext(a.K, a.W) < sext(b.K, b.W))
		case OSle:
			return c.Bool(sext(a.K, a.W) <= sext(b.K, b.W))
		}
	}
	if a == b {
		return c.Bool(op == OUle || op == OSle)
	}
	if op == OUlt && b.IsConst() && b.K == 0 {
		return c.False
	}
	if op == OUle && a.IsConst() && a.K == 0 {
		return c.True
	}
	return c.mk(op, 0, 0, a, b, nil, nil)
}

func (c *Ctx) Slt(a, b *T) *T { return c.Cmp(OSlt, a, b) }
func (c *Ctx) Sle(a, b *T) *T { return c.Cmp(OSle, a, b) }
func (c *Ctx) Ult(a, b *T) *T { return c.Cmp(OUlt, a, b) }
func (c *Ctx) Ule(a, b *T) *T { return c.Cmp(OUle, a, b) }

func (c *Ctx) BNot(a *T) *T {
	if a.IsConst() {
		return c.Bool(a.K == 0)
	}
	if a.Op == OBNot {
		return a.A
	}
	return c.mk(OBNot, 0, 0, a, nil, nil, nil)
}

func (c *Ctx) BAnd(a, b *T) *T {
	if a.IsFalse() || b.IsFalse() {
		return c.False
	}
	if a.IsTrue() {
		return b
	}
	if b.IsTrue() {
		return a
	}
	if a == b {
		return a
	}
	if a.ID > b.ID {
		a, b = b, a
	}
	return c.mk(OBAnd, 0, 0, a, b, nil, nil)
}

func (c *Ctx) BOr(a, b *T) *T {
	if a.IsTrue() || b.IsTrue() {
		return c.True
	}
	if a.IsFalse() {
		return b
	}
	if b.IsFalse() {
		return a
	}
	if a == b {
		return a
	}
	if a.ID > b.ID {
		a, b = b, a
	}
	return c.mk(OBOr, 0, 0, a, b, nil, nil)
}

// ---- arrays ----

func (c *Ctx) newArr(a *Arr) *Arr {
	a.ID = c.nextA
	c.nextA++
	return a
}

var zeroArr = &Arr{Kind: AZero, ID: -2}

func (c *Ctx) ZeroArr() *Arr { return zeroArr }

func (c *Ctx) BaseArr(name string) *Arr {
	a := c.newArr(&Arr{Kind: ABase, Name: fmt.Sprintf("%s!a%d", name, len(c.Bases))})
	c.Bases = append(c.Bases, a)
	return a
}

func (c *Ctx) Store(a *Arr, idx, val *T) *Arr {
	if idx.W != 64 || val.W != 8 {
		panic("term: store widths")
	}
	// overwrite of the same constant index directly on top
	if a.Kind == AStore && a.Idx == idx {
		a = a.Base
	}
	return c.newArr(&Arr{Kind: AStore, Base: a, Idx: idx, Val: val})
}

// Copy returns a with a[dOff+k] = src[sOff+k] for 0 <= k < n (src is the
// old value: memmove semantics).
func (c *Ctx) Copy(a *Arr, dOff *T, src *Arr, sOff, n *T) *Arr {
	if n.IsConst() {
		if n.SInt() <= 0 {
			return a
		}
		if n.K <= 64 && dOff.IsConst() && sOff.IsConst() {
			// small concrete copy: expand into stores (values read from old src)
			vals := make([]*T, n.K)
			for k := uint64(0); k < n.K; k++ {
				vals[k] = c.Select(src, c.Const(64, sOff.K+k))
			}
			for k := uint64(0); k < n.K; k++ {
				a = c.Store(a, c.Const(64, dOff.K+k), vals[k])
			}
			return a
		}
	}
	if a == src && dOff == sOff {
		return a
	}
	return c.newArr(&Arr{Kind: ACopy, Base: a, DOff: dOff, Src: src, SOff: sOff, N: n})
}

func (c *Ctx) Select(a *Arr, i *T) *T {
	if i.W != 64 {
		panic("term: select index width")
	}
	for {
		switch a.Kind {
		case AZero:
			return c.Const(8, 0)
		case AConstFill:
			return a.Val
		case ABase:
			return c.mk(OSelect, 8, 0, i, nil, nil, a)
		case AStore:
			eq := c.Eq(a.Idx, i)
			if eq.IsTrue() {
				return a.Val
			}
			if eq.IsFalse() {
				a = a.Base
				continue
			}
			mk := [2]int32{a.ID, i.ID}
			if t, ok := c.selMem[mk]; ok {
				return t
			}
			t := c.Ite(eq, a.Val, c.Select(a.Base, i))
			c.selMem[mk] = t
			return t
		case ACopy:
			in := c.BAnd(c.Sle(a.DOff, i), c.Slt(i, c.Add(a.DOff, a.N)))
			if in.IsFalse() {
				a = a.Base
				continue
			}
			si := c.Add(c.Sub(i, a.DOff), a.SOff)
			if in.IsTrue() {
				a, i = a.Src, si
				continue
			}
			mk := [2]int32{a.ID, i.ID}
			if t, ok := c.selMem[mk]; ok {
				return t
			}
			t := c.Ite(in, c.Select(a.Src, si), c.Select(a.Base, i))
			c.selMem[mk] = t
			return t
		}
	}
}

package interp

import (
	"fmt"
	"go/types"

	"golang.org/x/tools/go/ssa"

	"sse/term"
)

// Value is one of:
//
//	*term.T         integers (W=8..64) and booleans (W=0)
//	string          concrete string
//	Ptr             pointer to a location (Loc==nil: nil pointer)
//	BPtr            pointer to a byte inside a byte store
//	Struct          value struct
//	Array           value array of non-byte elements
//	BArr            value array of bytes (functional array term)
//	Slice           slice (byte-backed or Vec-backed)
//	Iface           interface value
//	*Closure, *ssa.Function, *ssa.Builtin   function values
//	*Map            map
//	Tuple           multiple results
//	Float           float64 (concrete only)
//	nil             invalid / zero func value
type Value interface{}

type Float float64

type Ptr struct {
	Loc *Value
	Vec *Vec // non-nil if Loc is element Idx of Vec
	Idx int
}

type BPtr struct {
	Base *Value // location holding a BArr
	Idx  *term.T
}

type Struct []Value
type Array []Value

// LazyArr is a large array of non-byte elements whose elements are
// materialised on first access (e.g. IO.pending.static [4096]*Slot).
type LazyArr struct {
	N     int64
	ElemT types.Type
	M     map[int64]*Value
}

func (ex *Exec) lazyElem(a *LazyArr, i int64) *Value {
	if loc, ok := a.M[i]; ok {
		return loc
	}
	loc := new(Value)
	*loc = ex.zero(a.ElemT)
	a.M[i] = loc
	return loc
}

type BArr struct {
	A *term.Arr
	N int64 // static length for typed arrays, -1 for heap stores
}

type Vec struct {
	E []Value
}

type Slice struct {
	Vec  *Vec   // non-byte backing
	Base *Value // byte backing (location holding BArr)
	Off  *term.T
	Len  *term.T
	Cap  *term.T
	Nil  bool
	Byte bool
}

type Iface struct {
	T types.Type // dynamic type, nil for nil interface
	V Value
}

type Closure struct {
	Fn  *ssa.Function
	Env []Value
}

type BoundMethod struct {
	Fn   *ssa.Function
	Recv Value
}

type Tuple []Value

type Map struct {
	Keys []interface{}
	M    map[interface{}]Value
}

// SymStr is a string whose bytes live in a byte store (result of string(b)).
type SymStr struct {
	A   *term.Arr
	Off *term.T
	Len *term.T
}

// UPtr is a pointer travelling as unsafe.Pointer / uintptr.
type UPtr struct {
	P   Value // Ptr or BPtr
	Add int64 // byte offset added arithmetically (only for mmap address games)
}

func isByteType(t types.Type) bool {
	b, ok := t.Underlying().(*types.Basic)
	return ok && (b.Kind() == types.Uint8)
}

func copyVal(v Value) Value {
	switch v := v.(type) {
	case Struct:
		n := make(Struct, len(v))
		for i := range v {
			n[i] = copyVal(v[i])
		}
		return n
	case Array:
		n := make(Array, len(v))
		for i := range v {
			n[i] = copyVal(v[i])
		}
		return n
	case *LazyArr:
		n := &LazyArr{N: v.N, ElemT: v.ElemT, M: make(map[int64]*Value, len(v.M))}
		for k, loc := range v.M {
			nl := new(Value)
			*nl = copyVal(*loc)
			n.M[k] = nl
		}
		return n
	}
	return v
}

// assign stores v into loc preserving interior pointers of aggregates.
func assign(loc *Value, v Value) {
	switch nv := v.(type) {
	case Struct:
		if cur, ok := (*loc).(Struct); ok && len(cur) == len(nv) {
			for i := range nv {
				assign(&cur[i], nv[i])
			}
			return
		}
		*loc = copyVal(nv)
		return
	case Array:
		if cur, ok := (*loc).(Array); ok && len(cur) == len(nv) {
			for i := range nv {
				assign(&cur[i], nv[i])
			}
			return
		}
		*loc = copyVal(nv)
		return
	}
	if la, ok := v.(*LazyArr); ok {
		*loc = copyVal(la)
		return
	}
	*loc = v
}

func (ex *Exec) intW(t types.Type) uint8 {
	switch b := t.Underlying().(type) {
	case *types.Basic:
		switch b.Kind() {
		case types.Bool, types.UntypedBool:
			return 0
		case types.Int8, types.Uint8:
			return 8
		case types.Int16, types.Uint16:
			return 16
		case types.Int32, types.Uint32, types.UntypedRune:
			return 32
		case types.Int, types.Uint, types.Int64, types.Uint64, types.Uintptr, types.UntypedInt:
			return 64
		}
	}
	return 255
}

func isSigned(t types.Type) bool {
	if b, ok := t.Underlying().(*types.Basic); ok {
		return b.Info()&types.IsInteger != 0 && b.Info()&types.IsUnsigned == 0
	}
	return false
}

func isIntegerT(t types.Type) bool {
	if b, ok := t.Underlying().(*types.Basic); ok {
		return b.Info()&(types.IsInteger|types.IsBoolean) != 0 || b.Kind() == types.UnsafePointer && false
	}
	return false
}

// zero returns the zero value of type t.
func (ex *Exec) zero(t types.Type) Value {
	switch u := t.Underlying().(type) {
	case *types.Basic:
		switch {
		case u.Kind() == types.String || u.Kind() == types.UntypedString:
			return ""
		case u.Kind() == types.UnsafePointer:
			return Ptr{}
		case u.Info()&types.IsFloat != 0:
			return Float(0)
		case u.Kind() == types.UntypedNil:
			return Ptr{}
		}
		w := ex.intW(t)
		if w == 255 {
			ex.unsupported("zero of basic type " + t.String())
		}
		return ex.C.Const(w, 0)
	case *types.Pointer:
		return Ptr{}
	case *types.Struct:
		s := make(Struct, u.NumFields())
		for i := range s {
			s[i] = ex.zero(u.Field(i).Type())
		}
		return s
	case *types.Array:
		if isByteType(u.Elem()) {
			return BArr{A: ex.C.ZeroArr(), N: u.Len()}
		}
		if u.Len() > 64 {
			return &LazyArr{N: u.Len(), ElemT: u.Elem(), M: map[int64]*Value{}}
		}
		a := make(Array, u.Len())
		for i := range a {
			a[i] = ex.zero(u.Elem())
		}
		return a
	case *types.Slice:
		z := ex.C.Const(64, 0)
		return Slice{Off: z, Len: z, Cap: z, Nil: true, Byte: isByteType(u.Elem())}
	case *types.Interface:
		return Iface{}
	case *types.Signature:
		return nil
	case *types.Map:
		return (*Map)(nil)
	case *types.Chan:
		return nil
	case *types.Tuple:
		tu := make(Tuple, u.Len())
		for i := range tu {
			tu[i] = ex.zero(u.At(i).Type())
		}
		return tu
	}
	ex.unsupported(fmt.Sprintf("zero of %T %s", t.Underlying(), t))
	return nil
}

func (ex *Exec) constInt(v int64) *term.T { return ex.C.Const(64, uint64(v)) }

// asInt demands a concrete integer.
func (ex *Exec) concreteInt(t *term.T, what string) int64 {
	if !t.IsConst() {
		t = ex.Concretize(t, 64, what)
	}
	return t.SInt()
}

func mapKey(ex *Exec, k Value) interface{} {
	switch k := k.(type) {
	case *term.T:
		if !k.IsConst() {
			k = ex.Concretize(k, 64, "map key")
		}
		return [2]uint64{uint64(k.W), k.K}
	case string:
		return k
	case Ptr:
		return k.Loc
	case Iface:
		return [2]interface{}{fmt.Sprint(k.T), mapKey(ex, k.V)}
	}
	ex.unsupported(fmt.Sprintf("map key %T", k))
	return nil
}

package interp

import (
	"fmt"
	"go/types"
	"strings"

	"golang.org/x/tools/go/ssa"

	"sse/term"
)

const vfPath = SonicPath + "/internal/vf."

func (ex *Exec) errorStringType() types.Type {
	p := ex.E.Prog.ImportedPackage("errors")
	if p == nil {
		ex.unsupported("package errors not loaded")
	}
	return types.NewPointer(p.Type("errorString").Type())
}

func (ex *Exec) opaqueError(name string) Value {
	loc := new(Value)
	*loc = Struct{name}
	return Iface{T: ex.errorStringType(), V: Ptr{Loc: loc}}
}

func (ex *Exec) addTape(kind, name string, t *term.T, arr *term.Arr) {
	ex.tape = append(ex.tape, TapeEntry{Kind: kind, Name: name, t: t, arr: arr})
}

func (ex *Exec) input(kind, name string, w uint8) *term.T {
	v := ex.C.Var(w, name)
	ex.S.Declare(v)
	ex.addTape(kind, name, v, nil)
	return v
}

func str(v Value) string {
	s, ok := v.(string)
	if !ok {
		return fmt.Sprintf("<%T>", v)
	}
	return s
}

// intrinsic intercepts calls by name. ok=false means: run the SSA body.
func (ex *Exec) intrinsic(fn *ssa.Function, args []Value) (Value, bool) {
	name := fn.String()
	if strings.HasPrefix(name, vfPath) {
		return ex.vfCall(name[len(vfPath):], args), true
	}
	if fn.Pkg != nil && isOurs(fn.Pkg) {
		return nil, false
	}
	c := ex.C
	switch name {
	case "fmt.Sprintf", "fmt.Sprint", "fmt.Sprintln":
		return "<formatted>", true
	case "fmt.Errorf":
		f, _ := args[0].(string)
		return ex.opaqueError("fmt.Errorf:" + f), true
	case "fmt.Printf", "fmt.Println", "fmt.Print", "fmt.Fprintf", "fmt.Fprintln", "fmt.Fprint":
		return Tuple{ex.constInt(0), Iface{}}, true
	case "log.Printf", "log.Println", "log.Print":
		return nil, true
	case "errors.Is":
		return ex.errorsIs(args[0], args[1]), true
	case "runtime.Gosched", "runtime.KeepAlive", "runtime.SetFinalizer", "runtime.GC":
		return nil, true
	case "reflect.TypeOf":
		return Iface{}, true
	case "sync/atomic.LoadUint32", "sync/atomic.LoadInt32", "sync/atomic.LoadInt64", "sync/atomic.LoadUint64", "sync/atomic.LoadUintptr":
		ex.atomicSync(args[0])
		return ex.loadNoRace(args[0], fn.Signature.Results().At(0).Type()), true
	case "sync/atomic.StoreUint32", "sync/atomic.StoreInt32", "sync/atomic.StoreInt64", "sync/atomic.StoreUint64":
		ex.atomicSync(args[0])
		ex.storeNoRace(args[0], args[1])
		return nil, true
	case "sync/atomic.AddUint32", "sync/atomic.AddInt32", "sync/atomic.AddInt64", "sync/atomic.AddUint64":
		t := fn.Signature.Results().At(0).Type()
		ex.atomicSync(args[0])
		n := c.Add(ex.loadNoRace(args[0], t).(*term.T), args[1].(*term.T))
		ex.storeNoRace(args[0], n)
		return n, true
	case "sync/atomic.CompareAndSwapUint32", "sync/atomic.CompareAndSwapInt32", "sync/atomic.CompareAndSwapInt64", "sync/atomic.CompareAndSwapUint64":
		t := fn.Signature.Params().At(1).Type()
		ex.atomicSync(args[0])
		cur := ex.loadNoRace(args[0], t).(*term.T)
		if ex.Branch(c.Eq(cur, args[1].(*term.T))) {
			ex.storeNoRace(args[0], args[2])
			return c.True, true
		}
		return c.False, true
	case "sync/atomic.SwapUint32", "sync/atomic.SwapInt32", "sync/atomic.SwapInt64", "sync/atomic.SwapUint64":
		t := fn.Signature.Results().At(0).Type()
		ex.atomicSync(args[0])
		cur := ex.loadNoRace(args[0], t)
		ex.storeNoRace(args[0], args[1])
		return cur, true
	case "unicode/utf8.Valid", "unicode/utf8.ValidString":
		return nil, false
	case "math/bits.Len64":
		x := args[0].(*term.T)
		if x.IsConst() {
			n := 0
			for v := x.K; v != 0; v >>= 1 {
				n++
			}
			return ex.constInt(int64(n)), true
		}
		return nil, false
	}
	return nil, false
}

func (ex *Exec) errorsIs(err, target Value) Value {
	e, ok := err.(Iface)
	t, ok2 := target.(Iface)
	if !ok || !ok2 {
		ex.unsupported("errors.Is on non-interface")
	}
	if e.T == nil || t.T == nil {
		return ex.C.Bool(e.T == nil && t.T == nil)
	}
	for depth := 0; depth < 8; depth++ {
		if e.T == nil {
			return ex.C.False
		}
		if types.Identical(e.T, t.T) {
			eq := ex.equal(e.V, t.V)
			if ex.Branch(eq) {
				return ex.C.True
			}
		}
		// Unwrap() error
		ms := ex.E.Prog.MethodSets.MethodSet(e.T)
		var sel *types.Selection
		for i := 0; i < ms.Len(); i++ {
			if ms.At(i).Obj().Name() == "Unwrap" {
				sel = ms.At(i)
			}
		}
		if sel == nil {
			return ex.C.False
		}
		sig := sel.Type().(*types.Signature)
		if sig.Params().Len() != 0 || sig.Results().Len() != 1 {
			return ex.C.False
		}
		ex.E.mu.Lock()
		fn := ex.E.Prog.MethodValue(sel)
		ex.E.mu.Unlock()
		r := ex.callFn(fn, []Value{e.V}, nil)
		ne, ok := r.(Iface)
		if !ok {
			return ex.C.False
		}
		e = ne
	}
	ex.unsupported("errors.Is: unwrap chain too deep")
	return nil
}

func (ex *Exec) boolArgs(v Value) []*term.T {
	s := v.(Slice)
	n := ex.concreteInt(s.Len, "variadic length")
	out := make([]*term.T, n)
	off := int64(0)
	if s.Vec != nil {
		off = s.Off.SInt()
	}
	for i := int64(0); i < n; i++ {
		out[i] = s.Vec.E[off+i].(*term.T)
	}
	return out
}

func (ex *Exec) vfCall(name string, args []Value) Value {
	c := ex.C
	switch name {
	case "Int", "Int64":
		return ex.input("int", str(args[0]), 64)
	case "Uint64":
		return ex.input("u64", str(args[0]), 64)
	case "Uint32":
		return ex.input("u32", str(args[0]), 32)
	case "Uint16":
		return ex.input("u16", str(args[0]), 16)
	case "Uint8":
		return ex.input("u8", str(args[0]), 8)
	case "Bool":
		// a fresh unconstrained boolean: both values are feasible by construction, fork without asking
		v := ex.ForkConst(2)
		t := c.Bool(v == 1)
		ex.addTape("bool", str(args[0]), t, nil)
		return t
	case "Len":
		return ex.input("len", str(args[0]), 64)
	case "Choice":
		k := args[1].(*term.T)
		if k.IsConst() && k.SInt() >= 1 && k.SInt() <= 64 {
			// fresh value in [0,k): every value is feasible by construction, fork without asking
			t := ex.constInt(int64(ex.ForkConst(int(k.SInt()))))
			ex.addTape("choice", str(args[0]), t, nil)
			return t
		}
		v := ex.input("choice", str(args[0]), 64)
		ex.Assume(c.BAnd(c.Sle(ex.constInt(0), v), c.Slt(v, k)))
		return v
	case "Bytes":
		n := args[1].(*term.T)
		ex.Oblige(c.BAnd(c.Sle(ex.constInt(0), n), c.Sle(n, ex.constInt(maxAlloc))), "vf.Bytes: length out of range")
		arr := c.BaseArr(str(args[0]))
		ex.addTape("bytes", str(args[0]), n, arr)
		loc := new(Value)
		*loc = BArr{A: arr, N: -1}
		return Slice{Base: loc, Byte: true, Off: ex.constInt(0), Len: n, Cap: n}
	case "Assume":
		ex.Assume(args[0].(*term.T))
		return nil
	case "Assert":
		ex.Assert(str(args[0]), args[1].(*term.T))
		return nil
	case "Reach":
		ex.Reach(str(args[0]))
		return nil
	case "Known":
		id := str(args[0])
		if kf, ok := ex.E.KnownIDs[id]; ok && kf.Status == "known" {
			ex.regions = append(ex.regions, region{id, args[1].(*term.T)})
		}
		return nil
	case "Unwind":
		ex.unwind = int(ex.concreteInt(args[0].(*term.T), "unwind bound"))
		return nil
	case "Concretize":
		max := int(ex.concreteInt(args[1].(*term.T), "concretize max"))
		return ex.Concretize(args[0].(*term.T), max, "vf.Concretize")
	case "All":
		r := c.True
		for _, b := range ex.boolArgs(args[0]) {
			r = c.BAnd(r, b)
		}
		return r
	case "Any":
		r := c.False
		for _, b := range ex.boolArgs(args[0]) {
			r = c.BOr(r, b)
		}
		return r
	case "Implies":
		return c.BOr(c.BNot(args[0].(*term.T)), args[1].(*term.T))
	case "Ite":
		return c.Ite(args[0].(*term.T), args[1].(*term.T), args[2].(*term.T))
	case "Done":
		return nil
	case "Go":
		ex.spawn(args[0])
		return nil
	case "Join":
		ex.join()
		return nil
	case "SyncPoint":
		ex.syncPoint()
		return nil
	case "Block":
		ex.block(str(args[0]))
		return nil
	case "ThreadID":
		return ex.constInt(int64(ex.cur))
	case "Acquire":
		if p, ok := args[0].(Iface); ok {
			if pp, ok := p.V.(Ptr); ok {
				ex.acquire(pp.Loc)
			}
		}
		return nil
	case "Release":
		if p, ok := args[0].(Iface); ok {
			if pp, ok := p.V.(Ptr); ok {
				ex.release(pp.Loc)
			}
		}
		return nil
	case "RaceCheck":
		ex.raceCheck = args[0].(*term.T).IsTrue()
		return nil
	case "MaxSwitches":
		ex.maxSwitches = int(ex.concreteInt(args[0].(*term.T), "max switches"))
		noteBound(ex.harness+".context-switches", int64(ex.maxSwitches))
		return nil
	case "Snapshot":
		sl := args[0].(Slice)
		loc := new(Value)
		if sl.Base == nil {
			*loc = BArr{A: c.ZeroArr(), N: -1}
			return Slice{Base: loc, Byte: true, Off: ex.constInt(0), Len: sl.Len, Cap: sl.Len}
		}
		*loc = BArr{A: (*sl.Base).(BArr).A, N: -1}
		return Slice{Base: loc, Byte: true, Off: sl.Off, Len: sl.Len, Cap: sl.Len}
	case "Thorough":
		return c.Bool(Tier == "thorough")
	case "ThoroughOnly":
		ex.res.Reached["opt:thorough-only"] = true
		if Tier != "thorough" {
			panic(pathEnd{PathPruned, "thorough-only harness"})
		}
		return nil
	case "Bound":
		q := ex.concreteInt(args[1].(*term.T), "bound")
		t := ex.concreteInt(args[2].(*term.T), "bound")
		v := q
		if Tier == "thorough" {
			v = t
		}
		noteBound(ex.harness+"."+str(args[0]), v)
		return ex.constInt(v)
	case "Load", "LoadJSON":
		return nil
	case "init":
		return nil
	}
	ex.unsupported("vf intrinsic " + name)
	return nil
}

// atomicSync: an atomic operation synchronises with the previous atomic operation on the same address.
func (ex *Exec) atomicSync(p Value) {
	if pp, ok := p.(Ptr); ok && pp.Loc != nil && len(ex.threads) > 1 {
		key := [2]interface{}{"atomic", pp.Loc}
		ex.acquire(key)
		ex.release(key)
	}
}

func (ex *Exec) loadNoRace(p Value, t types.Type) Value {
	saved := ex.raceCheck
	ex.raceCheck = false
	v := ex.load(p, t)
	ex.raceCheck = saved
	return v
}

func (ex *Exec) storeNoRace(p Value, v Value) {
	saved := ex.raceCheck
	ex.raceCheck = false
	ex.store(p, v, nil)
	ex.raceCheck = saved
}

package interp

import (
	"fmt"
	"go/token"
	"go/types"

	"golang.org/x/tools/go/ssa"

	"sse/term"
)

const maxAlloc = int64(1) << 47

func (ex *Exec) exec(fr *frame, in ssa.Instruction) {
	switch in := in.(type) {
	case *ssa.DebugRef:
	case *ssa.Alloc:
		loc := new(Value)
		*loc = ex.zero(in.Type().(*types.Pointer).Elem())
		ex.set(fr, in, Ptr{Loc: loc})
	case *ssa.UnOp:
		ex.set(fr, in, ex.unop(in, ex.get(fr, in.X)))
	case *ssa.BinOp:
		ex.set(fr, in, ex.binop(in.Op, in.X.Type(), ex.get(fr, in.X), ex.get(fr, in.Y)))
	case *ssa.Call:
		ex.set(fr, in, ex.doCall(fr, &in.Call))
	case *ssa.Store:
		ex.store(ex.get(fr, in.Addr), ex.get(fr, in.Val), in.Val.Type())
	case *ssa.FieldAddr:
		p := ex.get(fr, in.X)
		ex.set(fr, in, ex.fieldAddr(p, in.Field))
	case *ssa.Field:
		s := ex.get(fr, in.X).(Struct)
		ex.set(fr, in, copyVal(s[in.Field]))
	case *ssa.IndexAddr:
		ex.set(fr, in, ex.indexAddr(in.X.Type(), ex.get(fr, in.X), ex.toInt64T(ex.get(fr, in.Index).(*term.T), in.Index.Type())))
	case *ssa.Index:
		ex.set(fr, in, ex.indexVal(in.X.Type(), ex.get(fr, in.X), ex.toInt64T(ex.get(fr, in.Index).(*term.T), in.Index.Type())))
	case *ssa.Slice:
		ex.set(fr, in, ex.sliceOp(fr, in))
	case *ssa.MakeSlice:
		ex.set(fr, in, ex.makeSlice(in.Type(), ex.toInt64T(ex.get(fr, in.Len).(*term.T), in.Len.Type()), ex.toInt64T(ex.get(fr, in.Cap).(*term.T), in.Cap.Type())))
	case *ssa.MakeClosure:
		env := make([]Value, len(in.Bindings))
		for i, b := range in.Bindings {
			env[i] = ex.get(fr, b)
		}
		ex.set(fr, in, &Closure{Fn: in.Fn.(*ssa.Function), Env: env})
	case *ssa.MakeInterface:
		ex.set(fr, in, Iface{T: in.X.Type(), V: ex.get(fr, in.X)})
	case *ssa.ChangeInterface:
		ex.set(fr, in, ex.get(fr, in.X))
	case *ssa.ChangeType:
		ex.set(fr, in, ex.get(fr, in.X))
	case *ssa.Convert:
		ex.set(fr, in, ex.convert(in.X.Type(), in.Type(), ex.get(fr, in.X)))
	case *ssa.MultiConvert:
		ex.set(fr, in, ex.convert(in.X.Type(), in.Type(), ex.get(fr, in.X)))
	case *ssa.Extract:
		ex.set(fr, in, ex.get(fr, in.Tuple).(Tuple)[in.Index])
	case *ssa.TypeAssert:
		ex.set(fr, in, ex.typeAssert(in, ex.get(fr, in.X)))
	case *ssa.MakeMap:
		ex.set(fr, in, &Map{M: map[interface{}]Value{}})
	case *ssa.MapUpdate:
		m := ex.get(fr, in.Map).(*Map)
		if m == nil {
			ex.Oblige(ex.C.False, "assignment to entry in nil map")
		}
		k := mapKey(ex, ex.get(fr, in.Key))
		if _, ok := m.M[k]; !ok {
			m.Keys = append(m.Keys, k)
		}
		m.M[k] = copyVal(ex.get(fr, in.Value))
	case *ssa.Lookup:
		idxv := ex.get(fr, in.Index)
		if it, ok := idxv.(*term.T); ok {
			if _, isMap := in.X.Type().Underlying().(*types.Map); !isMap {
				idxv = ex.toInt64T(it, in.Index.Type())
			}
		}
		ex.set(fr, in, ex.lookup(in, ex.get(fr, in.X), idxv))
	case *ssa.Defer:
		c := in.Call
		var thunk func()
		if c.IsInvoke() {
			recv := ex.get(fr, c.Value).(Iface)
			args := []Value{recv.V}
			for _, a := range c.Args {
				args = append(args, ex.get(fr, a))
			}
			if recv.T == nil {
				ex.Oblige(ex.C.False, "nil interface method call in defer")
			}
			fn := ex.lookupMethod(recv.T, c.Method)
			thunk = func() { ex.callFn(fn, args, nil) }
		} else {
			args := make([]Value, len(c.Args))
			for i, a := range c.Args {
				args[i] = ex.get(fr, a)
			}
			if b, ok := c.Value.(*ssa.Builtin); ok {
				cc := c
				thunk = func() { ex.builtin(b, &cc, args) }
			} else {
				f := ex.get(fr, c.Value)
				thunk = func() { ex.callValue(f, args) }
			}
		}
		fr.defers = append(fr.defers, thunk)
	case *ssa.SliceToArrayPointer:
		s := ex.get(fr, in.X).(Slice)
		n := in.Type().(*types.Pointer).Elem().Underlying().(*types.Array).Len()
		ex.Oblige(ex.C.Sle(ex.constInt(n), s.Len), "slice to array pointer: length too short")
		if !s.Byte {
			ex.unsupported("SliceToArrayPointer on non-byte slice")
		}
		if !s.Off.IsConst() || s.Off.K != 0 {
			ex.unsupported("SliceToArrayPointer with offset")
		}
		ex.set(fr, in, Ptr{Loc: s.Base})
	case *ssa.Range:
		x := ex.get(fr, in.X)
		switch x := x.(type) {
		case *Map:
			it := &mapIter{}
			if x != nil {
				it.m = x
				it.keys = append([]interface{}(nil), x.Keys...)
			}
			ex.set(fr, in, it)
		default:
			ex.unsupported(fmt.Sprintf("range over %T", x))
		}
	case *ssa.Next:
		it := ex.get(fr, in.Iter).(*mapIter)
		kt := in.Type().(*types.Tuple).At(1).Type()
		vt := in.Type().(*types.Tuple).At(2).Type()
		for it.pos < len(it.keys) {
			k := it.keys[it.pos]
			it.pos++
			if v, ok := it.m.M[k]; ok {
				var kv, vv Value = nil, nil
				if !isInvalidT(kt) {
					kv = it.m.keyVal(ex, k, kt)
				}
				if !isInvalidT(vt) {
					vv = copyVal(v)
				}
				ex.set(fr, in, Tuple{ex.C.True, kv, vv})
				return
			}
		}
		ex.set(fr, in, Tuple{ex.C.False, nil, nil})
	case *ssa.Go, *ssa.Send, *ssa.Select, *ssa.MakeChan:
		ex.unsupported(fmt.Sprintf("concurrency instruction %T", in))
	default:
		ex.unsupported(fmt.Sprintf("instruction %T", in))
	}
}

func isInvalidT(t types.Type) bool {
	b, ok := t.(*types.Basic)
	return ok && b.Kind() == types.Invalid
}

type mapIter struct {
	m    *Map
	keys []interface{}
	pos  int
}

func (m *Map) keyVal(ex *Exec, k interface{}, kt types.Type) Value {
	switch k := k.(type) {
	case [2]uint64:
		return ex.C.Const(uint8(k[0]), k[1])
	case string:
		return k
	case *Value:
		return Ptr{Loc: k}
	}
	ex.unsupported("map key reconstruction")
	return nil
}

func (ex *Exec) lookup(in *ssa.Lookup, x, idx Value) Value {
	switch x := x.(type) {
	case *Map:
		elemT := in.X.Type().Underlying().(*types.Map).Elem()
		var v Value
		ok := false
		if x != nil {
			v, ok = x.M[mapKey(ex, idx)]
		}
		if !ok {
			v = ex.zero(elemT)
		} else {
			v = copyVal(v)
		}
		if in.CommaOk {
			return Tuple{v, ex.C.Bool(ok)}
		}
		return v
	case string:
		i := idx.(*term.T)
		ex.Oblige(ex.C.Ult(i, ex.constInt(int64(len(x)))), "string index out of range")
		ci := ex.concreteInt(i, "string index")
		return ex.C.Const(8, uint64(x[ci]))
	case SymStr:
		i := idx.(*term.T)
		ex.Oblige(ex.C.Ult(i, x.Len), "string index out of range")
		return ex.C.Select(x.A, ex.C.Add(x.Off, i))
	}
	ex.unsupported(fmt.Sprintf("lookup in %T", x))
	return nil
}

// ---- loads and stores ----

func (ex *Exec) nilCheck(p Value, what string) {
	switch p := p.(type) {
	case Ptr:
		if p.Loc == nil {
			ex.Oblige(ex.C.False, "nil pointer dereference ("+what+")")
		}
	case BPtr:
	case UPtr:
	default:
		ex.unsupported(fmt.Sprintf("dereference of %T", p))
	}
}

func (ex *Exec) load(p Value, t types.Type) Value {
	ex.nilCheck(p, "load")
	switch p := p.(type) {
	case Ptr:
		ex.noteAccess(p.Loc, false)
		v := *p.Loc
		// reinterpretation between integers and byte arrays (unsafe casts)
		if ba, ok := v.(BArr); ok {
			if w := ex.intW(t); w != 255 && w >= 8 {
				return ex.bytesToInt(ba, w)
			}
		}
		if iv, ok := v.(*term.T); ok {
			if at, ok := t.Underlying().(*types.Array); ok && isByteType(at.Elem()) {
				return ex.intToBytes(iv, at.Len())
			}
		}
		return copyVal(v)
	case BPtr:
		ba, ok := (*p.Base).(BArr)
		if !ok {
			ex.unsupported("byte access into non-byte storage")
		}
		if w := ex.intW(t); w != 8 {
			ex.unsupported("wide load through byte pointer")
		}
		return ex.C.Select(ba.A, p.Idx)
	}
	ex.unsupported(fmt.Sprintf("load via %T", p))
	return nil
}

func (ex *Exec) bytesToInt(ba BArr, w uint8) *term.T {
	var r *term.T = ex.C.Const(w, 0)
	for i := uint8(0); i < w/8; i++ {
		b := ex.C.Zext(ex.C.Select(ba.A, ex.constInt(int64(i))), w)
		r = ex.C.Bin(term.OOr, r, ex.C.Bin(term.OShl, b, ex.C.Const(w, uint64(i)*8)))
	}
	return r
}

func (ex *Exec) intToBytes(v *term.T, n int64) BArr {
	arr := ex.C.ZeroArr()
	for i := int64(0); i < n && i < int64(v.W/8); i++ {
		arr = ex.C.Store(arr, ex.constInt(i), ex.C.Extract(v, uint8(i*8+7), uint8(i*8)))
	}
	return BArr{A: arr, N: n}
}

func (ex *Exec) store(p Value, v Value, vt types.Type) {
	ex.nilCheck(p, "store")
	switch p := p.(type) {
	case Ptr:
		ex.noteAccess(p.Loc, true)
		// keep int <-> [n]byte punning coherent
		if cur, ok := (*p.Loc).(BArr); ok {
			if iv, ok := v.(*term.T); ok && iv.W >= 8 {
				*p.Loc = ex.intToBytes(iv, cur.N)
				return
			}
		}
		assign(p.Loc, v)
	case BPtr:
		ba, ok := (*p.Base).(BArr)
		if !ok {
			ex.unsupported("byte store into non-byte storage")
		}
		bv, ok := v.(*term.T)
		if !ok || bv.W != 8 {
			ex.unsupported("non-byte store through byte pointer")
		}
		*p.Base = BArr{A: ex.C.Store(ba.A, p.Idx, bv), N: ba.N}
	default:
		ex.unsupported(fmt.Sprintf("store via %T", p))
	}
}

func (ex *Exec) fieldAddr(p Value, f int) Value {
	pp, ok := p.(Ptr)
	if !ok {
		if up, ok2 := p.(UPtr); ok2 && up.Add == 0 {
			pp, ok = up.P.(Ptr)
		}
		if !ok {
			ex.unsupported(fmt.Sprintf("FieldAddr on %T", p))
		}
	}
	if pp.Loc == nil {
		ex.Oblige(ex.C.False, "nil pointer dereference (field address)")
	}
	s, ok := (*pp.Loc).(Struct)
	if !ok {
		ex.unsupported(fmt.Sprintf("FieldAddr: location holds %T", *pp.Loc))
	}
	return Ptr{Loc: &s[f]}
}

func (ex *Exec) indexAddr(xt types.Type, x Value, idx *term.T) Value {
	idx = ex.toInt64(idx)
	switch x := x.(type) {
	case Slice:
		ex.Oblige(ex.C.Ult(idx, x.Len), "index out of range")
		if x.Byte {
			return BPtr{Base: x.Base, Idx: ex.C.Add(x.Off, idx)}
		}
		i := ex.concreteInt(idx, "slice index")
		off := x.Off.SInt()
		return Ptr{Loc: &x.Vec.E[off+i], Vec: x.Vec, Idx: int(off + i)}
	case Ptr:
		if x.Loc == nil {
			ex.Oblige(ex.C.False, "nil pointer dereference (index)")
		}
		at := xt.Underlying().(*types.Pointer).Elem().Underlying().(*types.Array)
		ex.Oblige(ex.C.Ult(idx, ex.constInt(at.Len())), "index out of range")
		switch a := (*x.Loc).(type) {
		case BArr:
			return BPtr{Base: x.Loc, Idx: idx}
		case Array:
			i := ex.concreteInt(idx, "array index")
			return Ptr{Loc: &a[i]}
		case *LazyArr:
			i := ex.concreteInt(idx, "array index")
			return Ptr{Loc: ex.lazyElem(a, i)}
		case *term.T:
			if isByteType(at.Elem()) {
				*x.Loc = ex.intToBytes(a, at.Len())
				return BPtr{Base: x.Loc, Idx: idx}
			}
		}
		ex.unsupported(fmt.Sprintf("IndexAddr: location holds %T", *x.Loc))
	}
	ex.unsupported(fmt.Sprintf("IndexAddr on %T", x))
	return nil
}

func (ex *Exec) toInt64(i *term.T) *term.T {
	if i.W == 64 {
		return i
	}
	return ex.C.Sext(i, 64)
}

// toInt64T widens an index/length operand according to the signedness of its Go type.
func (ex *Exec) toInt64T(i *term.T, t types.Type) *term.T {
	if i.W == 64 {
		return i
	}
	if t != nil && !isSigned(t) {
		return ex.C.Zext(i, 64)
	}
	return ex.C.Sext(i, 64)
}

func (ex *Exec) indexVal(xt types.Type, x Value, idx *term.T) Value {
	idx = ex.toInt64(idx)
	switch a := x.(type) {
	case BArr:
		ex.Oblige(ex.C.Ult(idx, ex.constInt(a.N)), "index out of range")
		return ex.C.Select(a.A, idx)
	case Array:
		ex.Oblige(ex.C.Ult(idx, ex.constInt(int64(len(a)))), "index out of range")
		i := ex.concreteInt(idx, "array index")
		return copyVal(a[i])
	case *LazyArr:
		ex.Oblige(ex.C.Ult(idx, ex.constInt(a.N)), "index out of range")
		i := ex.concreteInt(idx, "array index")
		return copyVal(*ex.lazyElem(a, i))
	}
	ex.unsupported(fmt.Sprintf("Index on %T", x))
	return nil
}

func (ex *Exec) sliceOp(fr *frame, in *ssa.Slice) Value {
	x := ex.get(fr, in.X)
	var lo, hi, max *term.T
	if in.Low != nil {
		lo = ex.toInt64T(ex.get(fr, in.Low).(*term.T), in.Low.Type())
	}
	if in.High != nil {
		hi = ex.toInt64T(ex.get(fr, in.High).(*term.T), in.High.Type())
	}
	if in.Max != nil {
		max = ex.toInt64T(ex.get(fr, in.Max).(*term.T), in.Max.Type())
	}
	zero := ex.constInt(0)
	switch x := x.(type) {
	case Slice:
		if lo == nil {
			lo = zero
		}
		if hi == nil {
			hi = x.Len
		}
		capv := x.Cap
		if max != nil {
			ex.Oblige(ex.C.Ule(max, x.Cap), "slice bounds out of range (max > cap)")
			capv = max
		}
		ex.Oblige(ex.C.Ule(hi, capv), "slice bounds out of range (high > cap)")
		ex.Oblige(ex.C.Ule(lo, hi), "slice bounds out of range (low > high)")
		r := Slice{Vec: x.Vec, Base: x.Base, Byte: x.Byte, Nil: x.Nil,
			Off: ex.C.Add(x.Off, lo), Len: ex.C.Sub(hi, lo), Cap: ex.C.Sub(capv, lo)}
		return r
	case string:
		n := ex.constInt(int64(len(x)))
		if lo == nil {
			lo = zero
		}
		if hi == nil {
			hi = n
		}
		ex.Oblige(ex.C.Ule(hi, n), "string slice out of range")
		ex.Oblige(ex.C.Ule(lo, hi), "string slice out of range")
		return x[ex.concreteInt(lo, "string slice"):ex.concreteInt(hi, "string slice")]
	case Ptr:
		if x.Loc == nil {
			ex.Oblige(ex.C.False, "nil pointer dereference (slice of array)")
		}
		at := in.X.Type().Underlying().(*types.Pointer).Elem().Underlying().(*types.Array)
		n := ex.constInt(at.Len())
		if lo == nil {
			lo = zero
		}
		if hi == nil {
			hi = n
		}
		capv := n
		if max != nil {
			ex.Oblige(ex.C.Ule(max, n), "slice bounds out of range")
			capv = max
		}
		ex.Oblige(ex.C.Ule(hi, capv), "slice bounds out of range")
		ex.Oblige(ex.C.Ule(lo, hi), "slice bounds out of range")
		switch a := (*x.Loc).(type) {
		case BArr:
			return Slice{Base: x.Loc, Byte: true, Off: lo, Len: ex.C.Sub(hi, lo), Cap: ex.C.Sub(capv, lo)}
		case *term.T:
			if isByteType(at.Elem()) {
				*x.Loc = ex.intToBytes(a, at.Len())
				return Slice{Base: x.Loc, Byte: true, Off: lo, Len: ex.C.Sub(hi, lo), Cap: ex.C.Sub(capv, lo)}
			}
		case *LazyArr:
			arr := make(Array, a.N)
			for i := range arr {
				if loc, ok := a.M[int64(i)]; ok {
					arr[i] = *loc
				} else {
					arr[i] = ex.zero(a.ElemT)
				}
			}
			*x.Loc = arr
			vec := &Vec{E: arr}
			return Slice{Vec: vec, Off: lo, Len: ex.C.Sub(hi, lo), Cap: ex.C.Sub(capv, lo)}
		case Array:
			// share storage: move the array's elements into a Vec aliasing the same backing
			vec := &Vec{E: a}
			return Slice{Vec: vec, Off: lo, Len: ex.C.Sub(hi, lo), Cap: ex.C.Sub(capv, lo)}
		}
		ex.unsupported(fmt.Sprintf("slice of pointer to %T", *x.Loc))
	case SymStr:
		if lo == nil {
			lo = zero
		}
		if hi == nil {
			hi = x.Len
		}
		ex.Oblige(ex.C.Ule(hi, x.Len), "string slice out of range")
		ex.Oblige(ex.C.Ule(lo, hi), "string slice out of range")
		return SymStr{A: x.A, Off: ex.C.Add(x.Off, lo), Len: ex.C.Sub(hi, lo)}
	}
	ex.unsupported(fmt.Sprintf("slice of %T", x))
	return nil
}

func (ex *Exec) makeSlice(t types.Type, n, c *term.T) Value {
	n, c = ex.toInt64(n), ex.toInt64(c)
	st := t.Underlying().(*types.Slice)
	ex.Oblige(ex.C.BAnd(ex.C.Sle(ex.constInt(0), n), ex.C.Sle(n, ex.constInt(maxAlloc))), "makeslice: len out of range")
	ex.Oblige(ex.C.BAnd(ex.C.Sle(n, c), ex.C.Sle(c, ex.constInt(maxAlloc))), "makeslice: cap out of range")
	if isByteType(st.Elem()) {
		loc := new(Value)
		*loc = BArr{A: ex.C.ZeroArr(), N: -1}
		return Slice{Base: loc, Byte: true, Off: ex.constInt(0), Len: n, Cap: c}
	}
	cn := ex.concreteInt(c, "make cap")
	ln := ex.concreteInt(n, "make len")
	if cn > 1<<16 {
		ex.unsupported("make of large non-byte slice")
	}
	vec := &Vec{E: make([]Value, cn)}
	for i := range vec.E {
		vec.E[i] = ex.zero(st.Elem())
	}
	return Slice{Vec: vec, Off: ex.constInt(0), Len: ex.constInt(ln), Cap: ex.constInt(cn)}
}

// ---- unary / binary ----

func (ex *Exec) unop(in *ssa.UnOp, x Value) Value {
	switch in.Op {
	case token.MUL:
		return ex.load(x, in.Type())
	case token.NOT:
		return ex.C.BNot(x.(*term.T))
	case token.SUB:
		switch x := x.(type) {
		case *term.T:
			return ex.C.Neg(x)
		case Float:
			return -x
		}
	case token.XOR:
		return ex.C.Not(x.(*term.T))
	case token.ARROW:
		ex.unsupported("channel receive")
	}
	ex.unsupported("unop " + in.Op.String())
	return nil
}

func (ex *Exec) binop(op token.Token, t types.Type, x, y Value) Value {
	switch xv := x.(type) {
	case *term.T:
		yv, ok := y.(*term.T)
		if !ok {
			ex.unsupported(fmt.Sprintf("binop %s on term and %T", op, y))
		}
		return ex.intBinop(op, t, xv, yv)
	case string:
		if ss, isSym := y.(SymStr); isSym && (op == token.EQL || op == token.NEQ) {
			r := ex.strEq(ss, xv)
			if op == token.NEQ {
				r = ex.C.BNot(r)
			}
			return r
		}
		ys, ok := y.(string)
		if !ok {
			ex.unsupported("string op with symbolic string")
		}
		switch op {
		case token.ADD:
			return xv + ys
		case token.EQL:
			return ex.C.Bool(xv == ys)
		case token.NEQ:
			return ex.C.Bool(xv != ys)
		case token.LSS:
			return ex.C.Bool(xv < ys)
		case token.GTR:
			return ex.C.Bool(xv > ys)
		case token.LEQ:
			return ex.C.Bool(xv <= ys)
		case token.GEQ:
			return ex.C.Bool(xv >= ys)
		}
	case SymStr:
		if op == token.EQL || op == token.NEQ {
			r := ex.strEq(xv, y)
			if op == token.NEQ {
				r = ex.C.BNot(r)
			}
			return r
		}
	case Float:
		yf := y.(Float)
		switch op {
		case token.ADD:
			return xv + yf
		case token.SUB:
			return xv - yf
		case token.MUL:
			return xv * yf
		case token.QUO:
			return xv / yf
		case token.EQL:
			return ex.C.Bool(xv == yf)
		case token.NEQ:
			return ex.C.Bool(xv != yf)
		case token.LSS:
			return ex.C.Bool(xv < yf)
		case token.GTR:
			return ex.C.Bool(xv > yf)
		case token.LEQ:
			return ex.C.Bool(xv <= yf)
		case token.GEQ:
			return ex.C.Bool(xv >= yf)
		}
	}
	switch op {
	case token.EQL:
		return ex.equal(x, y)
	case token.NEQ:
		return ex.C.BNot(ex.equal(x, y))
	}
	ex.unsupported(fmt.Sprintf("binop %s on %T", op, x))
	return nil
}

func (ex *Exec) equal(x, y Value) *term.T {
	// pointers travelling as uintptr compared with an integer (only 0 makes sense)
	if t, ok := y.(*term.T); ok {
		switch p := x.(type) {
		case UPtr:
			return ex.equal(p.P, y)
		case Ptr:
			if t.IsConst() && t.K == 0 {
				return ex.C.Bool(p.Loc == nil)
			}
		case BPtr:
			if t.IsConst() && t.K == 0 {
				return ex.C.False
			}
		}
	}
	if _, ok := x.(*term.T); ok {
		switch y.(type) {
		case UPtr, Ptr, BPtr:
			return ex.equal(y, x)
		}
	}
	switch xv := x.(type) {
	case *term.T:
		if yv, ok := y.(*term.T); ok {
			return ex.C.Eq(xv, yv)
		}
	case string:
		if ys, ok := y.(string); ok {
			return ex.C.Bool(xv == ys)
		}
	case Float:
		if yf, ok := y.(Float); ok {
			return ex.C.Bool(xv == yf)
		}
	case Ptr:
		switch yv := y.(type) {
		case Ptr:
			return ex.C.Bool(xv.Loc == yv.Loc)
		case BPtr:
			return ex.C.False
		case UPtr:
			return ex.equal(x, yv.P)
		}
	case BPtr:
		switch yv := y.(type) {
		case BPtr:
			if xv.Base != yv.Base {
				return ex.C.False
			}
			return ex.C.Eq(xv.Idx, yv.Idx)
		case Ptr:
			return ex.C.False
		}
	case UPtr:
		if yv, ok := y.(UPtr); ok {
			if xv.Add != yv.Add {
				return ex.C.False
			}
			return ex.equal(xv.P, yv.P)
		}
		return ex.equal(xv.P, y)
	case Iface:
		yv, ok := y.(Iface)
		if !ok {
			break
		}
		if xv.T == nil || yv.T == nil {
			return ex.C.Bool(xv.T == nil && yv.T == nil)
		}
		if !types.Identical(xv.T, yv.T) {
			return ex.C.False
		}
		return ex.equal(xv.V, yv.V)
	case Slice:
		// only comparison with nil is legal
		if yv, ok := y.(Slice); ok {
			if yv.Nil && yv.Base == nil && yv.Vec == nil {
				return ex.C.Bool(xv.Nil)
			}
			if xv.Nil && xv.Base == nil && xv.Vec == nil {
				return ex.C.Bool(yv.Nil)
			}
		}
	case *Map:
		if yv, ok := y.(*Map); ok {
			return ex.C.Bool(xv == yv)
		}
	case nil:
		return ex.C.Bool(y == nil)
	case *Closure:
		return ex.C.Bool(y != nil && false)
	case *ssa.Function:
		return ex.C.Bool(y != nil && false)
	case Struct:
		yv := y.(Struct)
		r := ex.C.True
		for i := range xv {
			r = ex.C.BAnd(r, ex.equal(xv[i], yv[i]))
		}
		return r
	case Array:
		yv := y.(Array)
		r := ex.C.True
		for i := range xv {
			r = ex.C.BAnd(r, ex.equal(xv[i], yv[i]))
		}
		return r
	case BArr:
		yv := y.(BArr)
		r := ex.C.True
		for i := int64(0); i < xv.N; i++ {
			k := ex.constInt(i)
			r = ex.C.BAnd(r, ex.C.Eq(ex.C.Select(xv.A, k), ex.C.Select(yv.A, k)))
		}
		return r
	}
	if y == nil {
		return ex.C.False
	}
	ex.unsupported(fmt.Sprintf("comparison of %T and %T", x, y))
	return nil
}

func (ex *Exec) intBinop(op token.Token, t types.Type, x, y *term.T) Value {
	c := ex.C
	signed := isSigned(t)
	if x.W == 0 {
		switch op {
		case token.EQL:
			return c.Eq(x, y)
		case token.NEQ:
			return c.BNot(c.Eq(x, y))
		case token.AND, token.LAND:
			return c.BAnd(x, y)
		case token.OR, token.LOR:
			return c.BOr(x, y)
		}
		ex.unsupported("bool binop " + op.String())
	}
	switch op {
	case token.SHL, token.SHR:
		// y may have another width and is unsigned or non-negative
		w := x.W
		var big *term.T = c.False
		yy := y
		if y.W > w {
			big = c.Ule(c.Const(y.W, uint64(w)), y)
			yy = c.Extract(y, w-1, 0)
		} else if y.W < w {
			yy = c.Zext(y, w)
		}
		var r *term.T
		if op == token.SHL {
			r = c.Bin(term.OShl, x, yy)
			return c.Ite(big, c.Const(w, 0), r)
		}
		if signed {
			r = c.Bin(term.OAShr, x, yy)
			return c.Ite(big, c.Bin(term.OAShr, x, c.Const(w, uint64(w-1))), r)
		}
		r = c.Bin(term.OLShr, x, yy)
		return c.Ite(big, c.Const(w, 0), r)
	}
	if x.W != y.W {
		ex.unsupported(fmt.Sprintf("binop %s width mismatch %d/%d", op, x.W, y.W))
	}
	switch op {
	case token.ADD:
		return c.Add(x, y)
	case token.SUB:
		return c.Sub(x, y)
	case token.MUL:
		return c.Bin(term.OMul, x, y)
	case token.QUO:
		ex.Oblige(c.BNot(c.Eq(y, c.Const(y.W, 0))), "integer divide by zero")
		if signed {
			return c.Bin(term.OSDiv, x, y)
		}
		return c.Bin(term.OUDiv, x, y)
	case token.REM:
		ex.Oblige(c.BNot(c.Eq(y, c.Const(y.W, 0))), "integer divide by zero")
		if signed {
			return c.Bin(term.OSRem, x, y)
		}
		return c.Bin(term.OURem, x, y)
	case token.AND:
		return c.Bin(term.OAnd, x, y)
	case token.OR:
		return c.Bin(term.OOr, x, y)
	case token.XOR:
		return c.Bin(term.OXor, x, y)
	case token.AND_NOT:
		return c.Bin(term.OAnd, x, c.Not(y))
	case token.EQL:
		return c.Eq(x, y)
	case token.NEQ:
		return c.BNot(c.Eq(x, y))
	case token.LSS:
		if signed {
			return c.Slt(x, y)
		}
		return c.Ult(x, y)
	case token.LEQ:
		if signed {
			return c.Sle(x, y)
		}
		return c.Ule(x, y)
	case token.GTR:
		if signed {
			return c.Slt(y, x)
		}
		return c.Ult(y, x)
	case token.GEQ:
		if signed {
			return c.Sle(y, x)
		}
		return c.Ule(y, x)
	}
	ex.unsupported("int binop " + op.String())
	return nil
}

// ---- conversions ----

func (ex *Exec) convert(from, to types.Type, x Value) Value {
	fu, tu := from.Underlying(), to.Underlying()
	switch xv := x.(type) {
	case *term.T:
		if tb, ok := tu.(*types.Basic); ok {
			switch {
			case tb.Kind() == types.UnsafePointer:
				if xv.IsConst() && xv.K == 0 {
					return Ptr{}
				}
				ex.unsupported("integer to unsafe.Pointer")
			case tb.Info()&types.IsInteger != 0:
				w := ex.intW(to)
				if w == xv.W {
					return xv
				}
				if w < xv.W {
					return ex.C.Extract(xv, w-1, 0)
				}
				if isSigned(from) {
					return ex.C.Sext(xv, w)
				}
				return ex.C.Zext(xv, w)
			case tb.Info()&types.IsFloat != 0:
				if !xv.IsConst() {
					ex.unsupported("symbolic int to float")
				}
				if isSigned(from) {
					return Float(float64(xv.SInt()))
				}
				return Float(float64(xv.K))
			case tb.Info()&types.IsString != 0:
				if xv.IsConst() {
					return string(rune(xv.SInt()))
				}
				ex.unsupported("symbolic int to string")
			}
		}
	case Float:
		if tb, ok := tu.(*types.Basic); ok {
			switch {
			case tb.Info()&types.IsFloat != 0:
				if tb.Kind() == types.Float32 {
					return Float(float32(xv))
				}
				return xv
			case tb.Info()&types.IsInteger != 0:
				w := ex.intW(to)
				if isSigned(to) {
					return ex.C.Const(w, uint64(int64(xv)))
				}
				return ex.C.Const(w, uint64(xv))
			}
		}
	case string:
		if ts, ok := tu.(*types.Slice); ok && isByteType(ts.Elem()) {
			return ex.bytesSlice([]byte(xv))
		}
		if tb, ok := tu.(*types.Basic); ok && tb.Info()&types.IsString != 0 {
			return xv
		}
	case SymStr:
		if ts, ok := tu.(*types.Slice); ok && isByteType(ts.Elem()) {
			loc := new(Value)
			*loc = BArr{A: ex.C.Copy(ex.C.ZeroArr(), ex.constInt(0), xv.A, xv.Off, xv.Len), N: -1}
			return Slice{Base: loc, Byte: true, Off: ex.constInt(0), Len: xv.Len, Cap: xv.Len}
		}
		if tb, ok := tu.(*types.Basic); ok && tb.Info()&types.IsString != 0 {
			return xv
		}
	case Slice:
		if tb, ok := tu.(*types.Basic); ok && tb.Info()&types.IsString != 0 && xv.Byte {
			return ex.bytesToString(xv)
		}
		if _, ok := tu.(*types.Slice); ok {
			return xv
		}
	case Ptr, BPtr:
		if tb, ok := tu.(*types.Basic); ok {
			if tb.Kind() == types.UnsafePointer {
				return x
			}
			if tb.Kind() == types.Uintptr {
				return UPtr{P: x}
			}
		}
		if _, ok := tu.(*types.Pointer); ok {
			_ = fu
			return x
		}
	case UPtr:
		if tb, ok := tu.(*types.Basic); ok {
			if tb.Info()&types.IsInteger != 0 && tb.Kind() != types.Uintptr {
				return ex.ptrAddr(xv) // numeric address (only differences and zero tests are meaningful)
			}
			if tb.Kind() == types.UnsafePointer {
				if xv.Add == 0 {
					return xv.P
				}
				return xv
			}
			if tb.Kind() == types.Uintptr {
				return xv
			}
		}
		if _, ok := tu.(*types.Pointer); ok {
			if xv.Add == 0 {
				return xv.P
			}
			return xv
		}
	}
	ex.unsupported(fmt.Sprintf("convert %s -> %s (%T)", from, to, x))
	return nil
}

func (ex *Exec) bytesToString(s Slice) Value {
	if s.Nil || (s.Len.IsConst() && s.Len.K == 0) {
		return ""
	}
	ba := (*s.Base).(BArr)
	if s.Len.IsConst() && s.Len.K <= 4096 {
		buf := make([]byte, s.Len.K)
		all := true
		for i := range buf {
			b := ex.C.Select(ba.A, ex.C.Add(s.Off, ex.constInt(int64(i))))
			if !b.IsConst() {
				all = false
				break
			}
			buf[i] = byte(b.K)
		}
		if all {
			return string(buf)
		}
	}
	return SymStr{A: ba.A, Off: s.Off, Len: s.Len}
}

func (ex *Exec) typeAssert(in *ssa.TypeAssert, x Value) Value {
	ifc, ok := x.(Iface)
	if !ok {
		ex.unsupported(fmt.Sprintf("type assert on %T", x))
	}
	var okb bool
	var res Value
	if ti, isI := in.AssertedType.Underlying().(*types.Interface); isI {
		okb = ifc.T != nil && types.Implements(ifc.T, ti)
		if okb {
			res = ifc
		} else {
			res = Iface{}
		}
	} else {
		okb = ifc.T != nil && types.Identical(ifc.T, in.AssertedType)
		if okb {
			res = ifc.V
		} else {
			res = ex.zero(in.AssertedType)
		}
	}
	if in.CommaOk {
		return Tuple{res, ex.C.Bool(okb)}
	}
	if !okb {
		ex.Oblige(ex.C.False, "interface conversion: type assertion failed")
	}
	return res
}

// ---- builtins ----

func (ex *Exec) min64(a, b *term.T) *term.T { return ex.C.Ite(ex.C.Slt(a, b), a, b) }

func (ex *Exec) builtin(b *ssa.Builtin, c *ssa.CallCommon, args []Value) Value {
	switch b.Name() {
	case "len":
		switch x := args[0].(type) {
		case Slice:
			return x.Len
		case string:
			return ex.constInt(int64(len(x)))
		case SymStr:
			return x.Len
		case *Map:
			if x == nil {
				return ex.constInt(0)
			}
			return ex.constInt(int64(len(x.M)))
		case Ptr: // pointer to array
			return ex.constInt(c.Args[0].Type().Underlying().(*types.Pointer).Elem().Underlying().(*types.Array).Len())
		case BArr:
			return ex.constInt(x.N)
		case Array:
			return ex.constInt(int64(len(x)))
		}
	case "cap":
		switch x := args[0].(type) {
		case Slice:
			return x.Cap
		case BArr:
			return ex.constInt(x.N)
		case Array:
			return ex.constInt(int64(len(x)))
		}
	case "copy":
		dst := args[0].(Slice)
		switch src := args[1].(type) {
		case Slice:
			n := ex.min64(dst.Len, src.Len)
			if n.IsConst() && n.K == 0 {
				return n
			}
			if dst.Byte {
				da := (*dst.Base).(BArr)
				sa := (*src.Base).(BArr)
				*dst.Base = BArr{A: ex.C.Copy(da.A, dst.Off, sa.A, src.Off, n), N: da.N}
				return n
			}
			cn := ex.concreteInt(n, "copy length")
			tmp := make([]Value, cn)
			so, do := src.Off.SInt(), dst.Off.SInt()
			for i := int64(0); i < cn; i++ {
				tmp[i] = copyVal(src.Vec.E[so+i])
			}
			for i := int64(0); i < cn; i++ {
				assign(&dst.Vec.E[do+i], tmp[i])
			}
			return n
		case string:
			n := ex.min64(dst.Len, ex.constInt(int64(len(src))))
			cn := ex.concreteInt(n, "copy length")
			da := (*dst.Base).(BArr)
			arr := da.A
			for i := int64(0); i < cn; i++ {
				arr = ex.C.Store(arr, ex.C.Add(dst.Off, ex.constInt(i)), ex.C.Const(8, uint64(src[i])))
			}
			*dst.Base = BArr{A: arr, N: da.N}
			return n
		case SymStr:
			n := ex.min64(dst.Len, src.Len)
			da := (*dst.Base).(BArr)
			*dst.Base = BArr{A: ex.C.Copy(da.A, dst.Off, src.A, src.Off, n), N: da.N}
			return n
		}
	case "append":
		return ex.appendOp(c, args)
	case "delete":
		m := args[0].(*Map)
		if m != nil {
			delete(m.M, mapKey(ex, args[1]))
		}
		return nil
	case "print", "println":
		return nil
	case "min", "max":
		r := args[0].(*term.T)
		signed := isSigned(c.Args[0].Type())
		for _, a := range args[1:] {
			av := a.(*term.T)
			var lt *term.T
			if signed {
				lt = ex.C.Slt(av, r)
			} else {
				lt = ex.C.Ult(av, r)
			}
			if b.Name() == "max" {
				lt = ex.C.BNot(ex.C.BOr(lt, ex.C.Eq(av, r)))
			}
			r = ex.C.Ite(lt, av, r)
		}
		return r
	case "Slice": // unsafe.Slice(ptr, n)
		n := ex.toInt64(args[1].(*term.T))
		p := args[0]
		if up, ok := p.(UPtr); ok && up.Add == 0 {
			p = up.P
		}
		switch p := p.(type) {
		case Ptr:
			if p.Vec != nil {
				cn := ex.concreteInt(n, "unsafe.Slice length")
				if int64(p.Idx)+cn > int64(len(p.Vec.E)) {
					ex.Oblige(ex.C.False, "unsafe.Slice beyond the allocation")
				}
				return Slice{Vec: p.Vec, Off: ex.constInt(int64(p.Idx)), Len: ex.constInt(cn), Cap: ex.constInt(cn)}
			}
			if p.Loc != nil {
				if cn := ex.concreteInt(n, "unsafe.Slice length"); cn <= 1 {
					// a single object viewed as a one-element slice
					vec := &Vec{E: []Value{*p.Loc}}
					return Slice{Vec: vec, Off: ex.constInt(0), Len: ex.constInt(cn), Cap: ex.constInt(cn)}
				}
			}
		case BPtr:
			return Slice{Base: p.Base, Byte: true, Off: p.Idx, Len: n, Cap: n}
		}
		ex.unsupported(fmt.Sprintf("unsafe.Slice on %T", args[0]))
	case "ssa:wrapnilchk":
		if p, ok := args[0].(Ptr); ok && p.Loc == nil {
			ex.Oblige(ex.C.False, "value method called via nil pointer")
		}
		return args[0]
	case "clear":
		ex.unsupported("clear")
	}
	ex.unsupported("builtin " + b.Name() + fmt.Sprintf(" on %T", args[0]))
	return nil
}

func (ex *Exec) appendOp(c *ssa.CallCommon, args []Value) Value {
	s := args[0].(Slice)
	if s.Byte {
		var srcA *term.Arr
		var srcOff, n *term.T
		var str string
		isStr := false
		switch e := args[1].(type) {
		case Slice:
			if e.Base != nil {
				srcA = (*e.Base).(BArr).A
			} else {
				srcA = ex.C.ZeroArr()
			}
			srcOff, n = e.Off, e.Len
		case string:
			str, isStr = e, true
			n = ex.constInt(int64(len(e)))
		case SymStr:
			srcA, srcOff, n = e.A, e.Off, e.Len
		default:
			ex.unsupported(fmt.Sprintf("append of %T", e))
		}
		if n.IsConst() && n.K == 0 {
			return s
		}
		newLen := ex.C.Add(s.Len, n)
		ex.Oblige(ex.C.BAnd(ex.C.Sle(s.Len, newLen), ex.C.Sle(newLen, ex.constInt(maxAlloc))), "append: growslice: len out of range")
		fits := ex.C.Sle(newLen, s.Cap)
		write := func(base *Value, arr *term.Arr, at *term.T) {
			if isStr {
				for i := 0; i < len(str); i++ {
					arr = ex.C.Store(arr, ex.C.Add(at, ex.constInt(int64(i))), ex.C.Const(8, uint64(str[i])))
				}
			} else {
				arr = ex.C.Copy(arr, at, srcA, srcOff, n)
			}
			*base = BArr{A: arr, N: -1}
		}
		if s.Base != nil && ex.Branch(fits) {
			ba := (*s.Base).(BArr)
			nb := ba.N
			write(s.Base, ba.A, ex.C.Add(s.Off, s.Len))
			if nb >= 0 {
				*s.Base = BArr{A: (*s.Base).(BArr).A, N: nb}
			}
			return Slice{Base: s.Base, Byte: true, Off: s.Off, Len: newLen, Cap: s.Cap}
		}
		// grow: new backing store; capacity is the runtime's choice (>= newLen)
		loc := new(Value)
		arr := ex.C.ZeroArr()
		if s.Base != nil {
			arr = ex.C.Copy(arr, ex.constInt(0), (*s.Base).(BArr).A, s.Off, s.Len)
		}
		write(loc, arr, s.Len)
		newCap := ex.growCap(newLen, s.Cap)
		return Slice{Base: loc, Byte: true, Off: ex.constInt(0), Len: newLen, Cap: newCap}
	}
	// Vec-backed
	e, ok := args[1].(Slice)
	if !ok {
		ex.unsupported(fmt.Sprintf("append of %T to vec slice", args[1]))
	}
	n := ex.concreteInt(e.Len, "append length")
	if n == 0 {
		return s
	}
	sl, sc, so := ex.concreteInt(s.Len, "append len"), ex.concreteInt(s.Cap, "append cap"), int64(0)
	if s.Vec != nil {
		so = s.Off.SInt()
	}
	eo := e.Off.SInt()
	elems := make([]Value, n)
	for i := int64(0); i < n; i++ {
		elems[i] = copyVal(e.Vec.E[eo+i])
	}
	if s.Vec != nil && sl+n <= sc {
		for i := int64(0); i < n; i++ {
			assign(&s.Vec.E[so+sl+i], elems[i])
		}
		return Slice{Vec: s.Vec, Off: s.Off, Len: ex.constInt(sl + n), Cap: s.Cap}
	}
	nc := sc * 2
	if nc < sl+n {
		nc = sl + n
	}
	et := c.Args[0].Type().Underlying().(*types.Slice).Elem()
	vec := &Vec{E: make([]Value, nc)}
	for i := int64(0); i < sl; i++ {
		vec.E[i] = copyVal(s.Vec.E[so+i])
	}
	for i := int64(0); i < n; i++ {
		vec.E[sl+i] = elems[i]
	}
	for i := sl + n; i < nc; i++ {
		vec.E[i] = ex.zero(et)
	}
	return Slice{Vec: vec, Off: ex.constInt(0), Len: ex.constInt(sl + n), Cap: ex.constInt(nc)}
}

// growCap models the runtime's choice of capacity on reallocation: at least the new length and, as
// Go's growslice does (doubling or 1.25x growth, then rounding up to an allocation size class),
// at most 3*max(old capacity, new length)+1024.
func (ex *Exec) growCap(newLen, oldCap *term.T) *term.T {
	if newLen.IsConst() {
		// deterministic for concrete sizes: the next power of two (>= 8)
		n := newLen.SInt()
		c := int64(8)
		for c < n {
			c *= 2
		}
		return ex.constInt(c)
	}
	v := ex.C.Var(64, "growcap")
	ex.S.Declare(v)
	m := ex.C.Ite(ex.C.Slt(oldCap, newLen), newLen, oldCap)
	upper := ex.C.Add(ex.C.Add(ex.C.Bin(term.OShl, m, ex.constInt(1)), m), ex.constInt(1024))
	ex.assertFact(ex.C.BAnd(ex.C.Sle(newLen, v), ex.C.BAnd(ex.C.Sle(v, upper), ex.C.Sle(v, ex.constInt(maxAlloc)))))
	return v
}

// strEq compares a byte-store string with another string (lengths must be concrete).
func (ex *Exec) strEq(a SymStr, b Value) *term.T {
	n := ex.concreteInt(a.Len, "string length")
	switch bv := b.(type) {
	case string:
		if int64(len(bv)) != n {
			return ex.C.False
		}
		r := ex.C.True
		for i := int64(0); i < n; i++ {
			r = ex.C.BAnd(r, ex.C.Eq(ex.C.Select(a.A, ex.C.Add(a.Off, ex.constInt(i))), ex.C.Const(8, uint64(bv[i]))))
		}
		return r
	case SymStr:
		m := ex.concreteInt(bv.Len, "string length")
		if m != n {
			return ex.C.False
		}
		r := ex.C.True
		for i := int64(0); i < n; i++ {
			k := ex.constInt(i)
			r = ex.C.BAnd(r, ex.C.Eq(ex.C.Select(a.A, ex.C.Add(a.Off, k)), ex.C.Select(bv.A, ex.C.Add(bv.Off, k))))
		}
		return r
	}
	ex.unsupported(fmt.Sprintf("string comparison with %T", b))
	return nil
}

// ptrAddr gives a pointer a numeric address: every object gets a fresh, widely
// spaced, page-aligned base; a byte pointer adds its index.
func (ex *Exec) ptrAddr(u UPtr) *term.T {
	base := func(loc *Value) uint64 {
		if a, ok := ex.objAddr[loc]; ok {
			return a
		}
		ex.addrNext += 1 << 44
		ex.objAddr[loc] = ex.addrNext
		return ex.addrNext
	}
	switch p := u.P.(type) {
	case BPtr:
		return ex.C.Add(ex.C.Const(64, base(p.Base)+uint64(u.Add)), p.Idx)
	case Ptr:
		if p.Loc == nil {
			return ex.C.Const(64, 0)
		}
		return ex.C.Const(64, base(p.Loc)+uint64(u.Add))
	}
	ex.unsupported("numeric address of this pointer")
	return nil
}

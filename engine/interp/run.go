package interp

import (
	"fmt"
	"go/constant"
	"go/token"
	"go/types"

	"golang.org/x/tools/go/ssa"

	"sse/term"
)

type frame struct {
	fn     *ssa.Function
	fi     *fnInfo
	locals []Value
	env    []Value
	defers []func()
	back   map[*ssa.BasicBlock]int
	result Value
}

func (ex *Exec) get(fr *frame, v ssa.Value) Value {
	switch v := v.(type) {
	case *ssa.Const:
		return ex.constVal(v)
	case *ssa.Global:
		return Ptr{Loc: ex.globalLoc(v)}
	case *ssa.Function:
		return v
	case *ssa.Builtin:
		return v
	}
	i, ok := fr.fi.idx[v]
	if !ok {
		ex.unsupported(fmt.Sprintf("unknown ssa value %T %s", v, v.Name()))
	}
	return fr.locals[i]
}

func (ex *Exec) set(fr *frame, v ssa.Value, x Value) {
	fr.locals[fr.fi.idx[v]] = x
}

func (ex *Exec) constVal(c *ssa.Const) Value {
	t := c.Type()
	if c.Value == nil {
		return ex.zero(t)
	}
	switch u := t.Underlying().(type) {
	case *types.Basic:
		switch {
		case u.Info()&types.IsBoolean != 0:
			return ex.C.Bool(constant.BoolVal(c.Value))
		case u.Info()&types.IsString != 0:
			return constant.StringVal(c.Value)
		case u.Info()&types.IsFloat != 0:
			f, _ := constant.Float64Val(constant.ToFloat(c.Value))
			return Float(f)
		case u.Info()&types.IsInteger != 0:
			w := ex.intW(t)
			cv := constant.ToInt(c.Value)
			if i, ok := constant.Int64Val(cv); ok {
				return ex.C.Const(w, uint64(i))
			}
			if u64, ok := constant.Uint64Val(cv); ok {
				return ex.C.Const(w, u64)
			}
		}
	case *types.Interface, *types.TypeParam:
		// constant converted to interface happens via MakeInterface; here only nil
	}
	ex.unsupported("constant " + c.String())
	return nil
}

// call runs fn with args to completion.
func (ex *Exec) call(fn *ssa.Function, args []Value) Value {
	return ex.callFn(fn, args, nil)
}

func (ex *Exec) callFn(fn *ssa.Function, args []Value, env []Value) Value {
	if fn.Synthetic == "package initializer" {
		// package initialisers are run (once per path) by ensureInit only
		if fn.Pkg != nil && !ex.initDone[fn.Pkg] {
			ex.ensureInit(fn.Pkg)
			return nil
		}
		if ex.initDirect != fn {
			return nil
		}
	}
	if r, ok := ex.intrinsic(fn, args); ok {
		return r
	}
	if len(fn.Blocks) == 0 {
		ex.unsupported("call of external function " + fn.String())
	}
	ex.depth++
	if ex.depth > 400 {
		panic(pathEnd{PathInconclusive, "unwind: recursion deeper than 400 in " + fn.String()})
	}
	fi := ex.fnInfo(fn)
	fr := &frame{fn: fn, fi: fi, locals: make([]Value, fi.n), env: env}
	for i, p := range fn.Params {
		fr.locals[fi.idx[p]] = args[i]
	}
	for i, p := range fn.FreeVars {
		fr.locals[fi.idx[p]] = env[i]
	}
	ex.posStack = append(ex.posStack, ex.curPos)
	savedModel := ex.inModelCode
	ex.inModelCode = fi.model
	ex.runFrame(fr)
	ex.inModelCode = savedModel
	ex.curPos = ex.posStack[len(ex.posStack)-1]
	ex.posStack = ex.posStack[:len(ex.posStack)-1]
	ex.depth--
	return fr.result
}

func (ex *Exec) runFrame(fr *frame) {
	var prev *ssa.BasicBlock
	b := fr.fn.Blocks[0]
	for {
		var next *ssa.BasicBlock
		for _, in := range b.Instrs {
			ex.steps++
			if ex.steps > ex.MaxSteps {
				panic(pathEnd{PathInconclusive, "unwind: step budget exhausted"})
			}
			if p := in.Pos(); p.IsValid() {
				ex.curPos = p
			}
			switch in := in.(type) {
			case *ssa.Phi:
				for i, p := range b.Preds {
					if p == prev {
						ex.set(fr, in, ex.get(fr, in.Edges[i]))
						break
					}
				}
			case *ssa.If:
				c := ex.get(fr, in.Cond).(*term.T)
				if ex.Branch(c) {
					next = b.Succs[0]
				} else {
					next = b.Succs[1]
				}
			case *ssa.Jump:
				next = b.Succs[0]
			case *ssa.Return:
				switch len(in.Results) {
				case 0:
				case 1:
					fr.result = ex.get(fr, in.Results[0])
				default:
					tu := make(Tuple, len(in.Results))
					for i, r := range in.Results {
						tu[i] = ex.get(fr, r)
					}
					fr.result = tu
				}
				return
			case *ssa.RunDefers:
				ex.runDefers(fr)
			case *ssa.Panic:
				x := ex.get(fr, in.X)
				ex.explicitPanic("explicit panic(" + ex.describe(x) + ")")
			default:
				ex.exec(fr, in)
			}
		}
		if next == nil {
			ex.unsupported("block without terminator")
		}
		if next.Index <= b.Index {
			if fr.back == nil {
				fr.back = map[*ssa.BasicBlock]int{}
			}
			fr.back[next]++
			if fr.back[next] > ex.res.UnwindMax {
				ex.res.UnwindMax = fr.back[next]
			}
			limit := ex.unwind
			if fr.fi.model {
				limit = 1 << 20 // environment-model and harness code: loops over fixed tables / concrete payloads
			}
			if fr.back[next] > limit {
				panic(pathEnd{PathInconclusive, fmt.Sprintf("unwind: loop at %s exceeded bound %d", ex.posString(ex.curPos), ex.unwind)})
			}
		}
		prev, b = b, next
	}
}

func (ex *Exec) runDefers(fr *frame) {
	for len(fr.defers) > 0 {
		d := fr.defers[len(fr.defers)-1]
		fr.defers = fr.defers[:len(fr.defers)-1]
		d()
	}
}

func (ex *Exec) describe(v Value) string {
	switch v := v.(type) {
	case Iface:
		if v.T == nil {
			return "nil"
		}
		return v.T.String() + ":" + ex.describe(v.V)
	case string:
		return fmt.Sprintf("%q", v)
	case *term.T:
		if v.IsConst() {
			return fmt.Sprint(v.SInt())
		}
		return "<sym>"
	case Ptr:
		if v.Loc != nil {
			if s, ok := (*v.Loc).(Struct); ok && len(s) > 0 {
				if str, ok := s[0].(string); ok {
					return "&{" + str + "}"
				}
			}
		}
		return "<ptr>"
	}
	return fmt.Sprintf("<%T>", v)
}

// callValue calls any function value.
func (ex *Exec) callValue(f Value, args []Value) Value {
	switch f := f.(type) {
	case *ssa.Function:
		return ex.callFn(f, args, nil)
	case *Closure:
		return ex.callFn(f.Fn, args, f.Env)
	case *ssa.Builtin:
		ex.unsupported("builtin as value " + f.Name())
	case nil:
		ex.Oblige(ex.C.False, "call of nil function")
	}
	ex.unsupported(fmt.Sprintf("call of %T", f))
	return nil
}

func (ex *Exec) doCall(fr *frame, c *ssa.CallCommon) Value {
	args := make([]Value, 0, len(c.Args)+1)
	if c.IsInvoke() {
		recv := ex.get(fr, c.Value)
		ifc, ok := recv.(Iface)
		if !ok {
			ex.unsupported(fmt.Sprintf("invoke on %T", recv))
		}
		if ifc.T == nil {
			ex.Oblige(ex.C.False, "nil interface method call ("+c.Method.Name()+")")
		}
		fn := ex.lookupMethod(ifc.T, c.Method)
		args = append(args, ifc.V)
		for _, a := range c.Args {
			args = append(args, ex.get(fr, a))
		}
		return ex.callFn(fn, args, nil)
	}
	for _, a := range c.Args {
		args = append(args, ex.get(fr, a))
	}
	switch f := c.Value.(type) {
	case *ssa.Builtin:
		return ex.builtin(f, c, args)
	case *ssa.Function:
		return ex.callFn(f, args, nil)
	}
	return ex.callValue(ex.get(fr, c.Value), args)
}

func (ex *Exec) lookupMethod(t types.Type, m *types.Func) *ssa.Function {
	ms := ex.E.Prog.MethodSets.MethodSet(t)
	sel := ms.Lookup(m.Pkg(), m.Name())
	if sel == nil {
		ex.unsupported("method " + m.Name() + " not found on " + t.String())
	}
	ex.E.mu.Lock()
	fn := ex.E.Prog.MethodValue(sel)
	ex.E.mu.Unlock()
	if fn == nil {
		ex.unsupported("no method value for " + t.String() + "." + m.Name())
	}
	return fn
}

var _ = token.NoPos

func (ex *Exec) fnInfo(fn *ssa.Function) *fnInfo {
	if fi, ok := ex.fiCache[fn]; ok {
		return fi
	}
	fi := ex.E.info(fn)
	if ex.fiCache == nil {
		ex.fiCache = map[*ssa.Function]*fnInfo{}
	}
	ex.fiCache[fn] = fi
	return fi
}

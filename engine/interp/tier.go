package interp

import (
	"sort"
	"sync"
)

// Tier is "quick" or "thorough"; harnesses read it through vf.Thorough / vf.Bound.
var Tier = "quick"

var (
	boundsMu sync.Mutex
	bounds   = map[string]int64{}
)

func noteBound(name string, v int64) {
	boundsMu.Lock()
	bounds[name] = v
	boundsMu.Unlock()
}

// BoundsSeen returns the bounds the harnesses asked for in this run.
func BoundsSeen() map[string]int64 {
	boundsMu.Lock()
	defer boundsMu.Unlock()
	out := map[string]int64{}
	var ks []string
	for k := range bounds {
		ks = append(ks, k)
	}
	sort.Strings(ks)
	for _, k := range ks {
		out[k] = bounds[k]
	}
	return out
}

package interp

import (
	"fmt"
	"go/token"
)

// Logical threads. Each is a parked interpreter goroutine; exactly one runs at
// a time (baton passing), so the heap needs no locking and a path is still a
// deterministic function of its decision vector: the scheduler's choices are
// ordinary ForkConst decisions taken at the synchronisation operations of the
// environment model (vf.SyncPoint / vf.Block in vsync.Mutex and the shared
// kernel calls). For data-race-free code, switching only at synchronisation
// operations loses no behaviour; races themselves are detected separately
// with vector clocks (see race.go).

type thread struct {
	id      int
	resume  chan bool // true = the path is over: unwind
	done    bool
	vc      []int
	inModel bool // whether it was executing model/harness code when it was parked
}

type threadKilled struct{}

func (ex *Exec) initThreads() {
	ex.threads = []*thread{{id: 0, resume: make(chan bool, 1), vc: []int{1}}}
	ex.cur = 0
	ex.threadPanic = nil
	ex.switches = 0
	ex.syncVC = map[interface{}][]int{}
	ex.accesses = map[*Value]*access{}
}

// killThreads releases every parked thread goroutine at the end of a path.
func (ex *Exec) killThreads() {
	for _, t := range ex.threads[1:] {
		if !t.done {
			t.done = true
			select {
			case t.resume <- true:
			default:
			}
		}
	}
}

// spawn implements vf.Go.
func (ex *Exec) spawn(fn Value) {
	if len(ex.threads) >= 4 {
		ex.unsupported("more than 3 spawned threads")
	}
	parent := ex.threads[ex.cur]
	t := &thread{id: len(ex.threads), resume: make(chan bool, 1)}
	for len(parent.vc) < t.id+1 {
		parent.vc = append(parent.vc, 0)
	}
	t.vc = append([]int(nil), parent.vc...)
	t.vc[t.id] = 1
	parent.vc[parent.id]++
	for _, o := range ex.threads {
		for len(o.vc) < t.id+1 {
			o.vc = append(o.vc, 0)
		}
	}
	ex.threads = append(ex.threads, t)
	go func() {
		if kill := <-t.resume; kill {
			return
		}
		defer func() {
			if r := recover(); r != nil {
				if _, ok := r.(threadKilled); ok {
					return
				}
				// a path end (violation, prune, inconclusive) raised on this thread: hand it to the main thread
				ex.threadPanic = r
				t.done = true
				ex.cur = 0
				ex.threads[0].resume <- false
			}
		}()
		ex.inModelCode = true
		ex.callValue(fn, nil)
		t.done = true
		ex.threadDone(t)
	}()
}

func (ex *Exec) runnable(exclude int) []int {
	var r []int
	for _, t := range ex.threads {
		if !t.done && t.id != exclude && !(t.id == 0 && ex.mainJoining) {
			r = append(r, t.id)
		}
	}
	return r
}

// handoff makes thread `to` run and parks the caller until it is resumed.
func (ex *Exec) handoff(to int) {
	me := ex.threads[ex.cur]
	me.inModel = ex.inModelCode
	ex.cur = to
	ex.threads[to].resume <- false
	if kill := <-me.resume; kill {
		panic(threadKilled{})
	}
	ex.inModelCode = me.inModel
	if ex.threadPanic != nil && me.id == 0 {
		r := ex.threadPanic
		ex.threadPanic = nil
		panic(r)
	}
}

// syncPoint is a preemption point: the scheduler may switch to any runnable thread.
func (ex *Exec) syncPoint() {
	if len(ex.threads) == 1 {
		return
	}
	if ex.switches >= ex.maxSwitches {
		return
	}
	r := ex.runnable(-1)
	if len(r) <= 1 {
		return
	}
	// put the current thread first so that decision 0 means "keep running"
	order := []int{ex.cur}
	for _, id := range r {
		if id != ex.cur {
			order = append(order, id)
		}
	}
	k := int(ex.ForkConst(len(order)))
	ex.schedTrace = append(ex.schedTrace, order[k])
	ex.addTapeConst("sched", "switch", int64(order[k]))
	if order[k] != ex.cur {
		ex.switches++
		ex.handoff(order[k])
	}
}

// block: the current thread cannot proceed (mutex held by another thread); somebody else must run.
func (ex *Exec) block(what string) {
	r := ex.runnable(ex.cur)
	if len(r) == 0 {
		ex.Assert("deadlock: every thread is blocked ("+what+")", ex.C.False)
		panic(pathEnd{PathPruned, "deadlock"})
	}
	k := int(ex.ForkConst(len(r)))
	ex.addTapeConst("sched", "blocked", int64(r[k]))
	ex.handoff(r[k])
}

// threadDone: the current thread has finished; pick who continues.
func (ex *Exec) threadDone(t *thread) {
	r := ex.runnable(t.id)
	if len(r) == 0 {
		if ex.mainJoining {
			ex.mainJoining = false
			ex.cur = 0
			ex.threads[0].resume <- false
			return
		}
		return
	}
	k := int(ex.ForkConst(len(r)))
	ex.addTapeConst("sched", "done", int64(r[k]))
	ex.cur = r[k]
	ex.threads[r[k]].resume <- false
}

// join implements vf.Join: the main thread waits for all spawned threads.
func (ex *Exec) join() {
	if ex.cur != 0 {
		ex.unsupported("vf.Join from a spawned thread")
	}
	for {
		alive := false
		for _, t := range ex.threads[1:] {
			if !t.done {
				alive = true
			}
		}
		if !alive {
			break
		}
		ex.mainJoining = true
		r := ex.runnable(0)
		if len(r) == 0 {
			ex.mainJoining = false
			ex.Assert("deadlock: spawned threads cannot finish", ex.C.False)
			panic(pathEnd{PathPruned, "deadlock"})
		}
		k := int(ex.ForkConst(len(r)))
		ex.addTapeConst("sched", "join", int64(r[k]))
		ex.handoff(r[k])
		ex.mainJoining = false
	}
	// everything the threads did happens-before what follows
	main := ex.threads[0]
	for _, t := range ex.threads[1:] {
		for i := range t.vc {
			if i < len(main.vc) && t.vc[i] > main.vc[i] {
				main.vc[i] = t.vc[i]
			}
		}
	}
}

func (ex *Exec) addTapeConst(kind, name string, v int64) {
	ex.tape = append(ex.tape, TapeEntry{Kind: kind, Name: name, t: ex.constInt(v)})
}

// ---- happens-before race detection ----

type access struct {
	wT, wC int
	wPos   token.Pos
	rC     []int
	rPos   []token.Pos
}

func (ex *Exec) acquire(obj interface{}) {
	if len(ex.threads) == 1 {
		return
	}
	me := ex.threads[ex.cur]
	if vc, ok := ex.syncVC[obj]; ok {
		for i := range vc {
			for len(me.vc) <= i {
				me.vc = append(me.vc, 0)
			}
			if vc[i] > me.vc[i] {
				me.vc[i] = vc[i]
			}
		}
	}
}

func (ex *Exec) release(obj interface{}) {
	if len(ex.threads) == 1 {
		return
	}
	me := ex.threads[ex.cur]
	ex.syncVC[obj] = append([]int(nil), me.vc...)
	me.vc[me.id]++
}

func (ex *Exec) noteAccess(loc *Value, write bool) {
	if len(ex.threads) == 1 || !ex.raceCheck || ex.inModelCode {
		return // only accesses made by the code under test are tracked (the model stands for the kernel, which synchronises internally)
	}
	me := ex.threads[ex.cur]
	a := ex.accesses[loc]
	if a == nil {
		a = &access{wT: -1}
		ex.accesses[loc] = a
	}
	hb := func(t, c int) bool { return t < 0 || t == me.id || (t < len(me.vc) && c <= me.vc[t]) }
	if !hb(a.wT, a.wC) {
		ex.raceFound(loc, a.wPos, "write", write)
	}
	if write {
		for u, c := range a.rC {
			if c > 0 && !hb(u, c) {
				ex.raceFound(loc, a.rPos[u], "read", true)
			}
		}
		a.wT, a.wC, a.wPos = me.id, me.vc[me.id], ex.curPos
		a.rC, a.rPos = nil, nil
	} else {
		for len(a.rC) <= me.id {
			a.rC = append(a.rC, 0)
			a.rPos = append(a.rPos, token.NoPos)
		}
		a.rC[me.id], a.rPos[me.id] = me.vc[me.id], ex.curPos
	}
}

func (ex *Exec) raceFound(loc *Value, other token.Pos, otherKind string, write bool) {
	kind := "read"
	if write {
		kind = "write"
	}
	msg := fmt.Sprintf("data race: %s at %s is not ordered with the %s at %s by another thread", kind, ex.posString(ex.curPos), otherKind, ex.posString(other))
	key := ex.posString(ex.curPos) + "|" + ex.posString(other)
	if ex.racesSeen == nil {
		ex.racesSeen = map[string]bool{}
	}
	if ex.racesSeen[key] {
		return
	}
	ex.racesSeen[key] = true
	// reported as its own kind: the native confirmation is that the recorded schedule replays up to
	// this point (a native run has no happens-before tracker that could "fail")
	ex.flushObs()
	ex.res.Asserts++
	ex.violationHere("race", msg, ex.C.True)
}

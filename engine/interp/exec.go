package interp

import (
	"fmt"
	"go/token"
	"go/types"
	"os"
	"sort"
	"strings"
	"sync"

	"golang.org/x/tools/go/ssa"

	"sse/smt"
	"sse/term"
)

const SonicPath = "github.com/talostrading/sonic"

// Engine is the shared, read-only part.
type Engine struct {
	Prog     *ssa.Program
	Fset     *token.FileSet
	KnownIDs map[string]KnownFinding // active known findings (status "known")
	Verbose  bool
	MaxViol  int

	mu        sync.Mutex
	fnInfos   map[*ssa.Function]*fnInfo
	FuncsUsed map[string]bool
}

type KnownFinding struct {
	ID       string `json:"id"`
	Property string `json:"property"`
	Status   string `json:"status"`
	What     string `json:"what"`
	Commit   string `json:"commit,omitempty"`
	Harness  string `json:"harness,omitempty"`
}

type fnInfo struct {
	idx   map[ssa.Value]int
	n     int
	model bool // environment-model or harness function (not code under test)
}

func (e *Engine) info(fn *ssa.Function) *fnInfo {
	e.mu.Lock()
	defer e.mu.Unlock()
	if fi, ok := e.fnInfos[fn]; ok {
		return fi
	}
	fi := &fnInfo{idx: map[ssa.Value]int{}}
	if fn.Pkg != nil && strings.Contains(fn.Pkg.Pkg.Path(), "/internal/vsys/") {
		fi.model = true
	}
	for f := fn; f != nil; f = f.Parent() {
		if p := f.Pos(); p.IsValid() && strings.Contains(e.Fset.Position(p).Filename, "zz_verif_") {
			fi.model = true
		}
	}
	for _, p := range fn.Params {
		fi.idx[p] = fi.n
		fi.n++
	}
	for _, p := range fn.FreeVars {
		fi.idx[p] = fi.n
		fi.n++
	}
	for _, b := range fn.Blocks {
		for _, in := range b.Instrs {
			if v, ok := in.(ssa.Value); ok {
				fi.idx[v] = fi.n
				fi.n++
			}
		}
	}
	if e.fnInfos == nil {
		e.fnInfos = map[*ssa.Function]*fnInfo{}
	}
	e.fnInfos[fn] = fi
	if e.FuncsUsed == nil {
		e.FuncsUsed = map[string]bool{}
	}
	e.FuncsUsed[fn.String()] = true
	return fi
}

// ---- work items and results ----

type WorkItem struct {
	Dec    []uint64
	FailOb int // sequence number of the obligation that must fail, -1 for none
}

type PathStatus int

const (
	PathOK PathStatus = iota
	PathPruned
	PathViolation
	PathKnownOnly
	PathInconclusive
)

type TapeEntry struct {
	Kind string `json:"k"`
	Name string `json:"name"`
	V    string `json:"v,omitempty"`   // decimal for ints
	Len  int64  `json:"len,omitempty"` // for bytes
	B    []byte `json:"b,omitempty"`   // for bytes (base64 in JSON)
	t    *term.T
	arr  *term.Arr
}

type Violation struct {
	Harness string
	What    string // assertion id or panic description
	Pos     string
	Tape    []TapeEntry
	Kind    string // "assert" | "panic"
}

type ReachWitness struct {
	ID   string
	Tape []TapeEntry
}

type PathResult struct {
	Status     PathStatus
	Reason     string
	New        []WorkItem
	Violations []Violation
	KnownSeen  []string
	Reached    map[string]bool
	Witnesses  []ReachWitness
	Asserts    int // assertions discharged on this path
	Branches   int // solver-decided decisions taken on this path
	UnwindMax  int
	PanicPath  bool
	Trace      []uint64
	Sample     string
}

type pathEnd struct {
	status PathStatus
	reason string
}

type ob struct {
	cond *term.T
	kind string
	pos  token.Pos
	seq  int
}

type region struct {
	id   string
	cond *term.T
}

// Exec is one worker: one solver process, one path at a time.
type Exec struct {
	E *Engine
	S *smt.Solver
	C *term.Ctx

	globals   map[*ssa.Global]*Value
	initDone  map[*ssa.Package]bool
	dec       []uint64
	dpos      int
	trace     []uint64
	failOb    int
	obSeq     int
	pending   []ob
	known     map[int32]bool // asserted-true term ids
	usedVar   map[int32]bool // variables occurring in the asserted path condition
	usedArr   map[int32]bool // base arrays occurring in the asserted path condition
	leafDone  map[int32]bool // term nodes already scanned into usedVar/usedArr
	FreshSat  int            // feasibility checks decided without the solver (condition over fresh inputs only)
	regions   []region
	tape      []TapeEntry
	res       *PathResult
	unwind    int
	harness   string
	depth     int
	addrNext  uint64
	objAddr   map[*Value]uint64
	NeedWit   func(id string) bool // asks whether a witness for this reach id is still wanted
	WantPathSample func(harness string) bool // asks whether this completed path should be replayed natively
	Env       map[string]interface{}
	curPos    token.Pos
	posStack  []token.Pos
	steps     int
	MaxSteps  int
	pathConds []string
	fiCache   map[*ssa.Function]*fnInfo
	threads     []*thread
	cur         int
	threadPanic interface{}
	switches    int
	maxSwitches int
	mainJoining bool
	schedTrace  []int
	syncVC      map[interface{}][]int
	accesses    map[*Value]*access
	raceCheck   bool
	inModelCode bool
	racesSeen   map[string]bool
	runningInit int
	initDirect  *ssa.Function
}

func NewExec(e *Engine, s *smt.Solver) *Exec {
	return &Exec{E: e, S: s, MaxSteps: 5_000_000}
}

func (ex *Exec) unsupported(msg string) {
	panic(pathEnd{PathInconclusive, "unsupported: " + msg + " at " + ex.posString(ex.curPos)})
}

func (ex *Exec) posString(p token.Pos) string {
	if !p.IsValid() {
		for i := len(ex.posStack) - 1; i >= 0; i-- {
			if ex.posStack[i].IsValid() {
				p = ex.posStack[i]
				break
			}
		}
	}
	if !p.IsValid() {
		return "?"
	}
	pp := ex.E.Fset.Position(p)
	fn := pp.Filename
	if r := os.Getenv("SSE_REPO"); r != "" {
		fn = strings.TrimPrefix(fn, r+"/")
	}
	return fmt.Sprintf("%s:%d", strings.TrimPrefix(fn, "/repo/"), pp.Line)
}

// RunPath executes harness fn along the decisions of item.
func (ex *Exec) RunPath(fn *ssa.Function, item WorkItem) (res PathResult) {
	ex.C = term.NewCtx()
	ex.globals = map[*ssa.Global]*Value{}
	ex.initDone = map[*ssa.Package]bool{}
	ex.dec = item.Dec
	ex.dpos = 0
	ex.trace = ex.trace[:0]
	ex.failOb = item.FailOb
	ex.obSeq = 0
	ex.pending = ex.pending[:0]
	ex.known = map[int32]bool{}
	ex.usedVar, ex.usedArr, ex.leafDone = map[int32]bool{}, map[int32]bool{}, map[int32]bool{}
	ex.regions = nil
	ex.tape = nil
	ex.unwind = 64
	ex.harness = fn.Name()
	ex.depth = 0
	ex.addrNext = 0x10000000
	ex.objAddr = map[*Value]uint64{}
	ex.steps = 0
	ex.posStack = ex.posStack[:0]
	ex.pathConds = nil
	ex.initThreads()
	ex.maxSwitches = 3
	ex.mainJoining = false
	ex.raceCheck = false
	ex.racesSeen = nil
	res.Reached = map[string]bool{}
	ex.res = &res
	ex.S.BeginPath()
	defer func() {
		ex.killThreads()
		ex.S.EndPath()
		res.Trace = append([]uint64(nil), ex.trace...)
		if r := recover(); r != nil {
			pe, ok := r.(pathEnd)
			if !ok {
				panic(r)
			}
			res.Status = pe.status
			res.Reason = pe.reason
		}
		if ex.S.Err != nil {
			res.Status = PathInconclusive
			res.Reason = "solver: " + ex.S.Err.Error()
		}
	}()
	ex.call(fn, nil)
	ex.flushObs()
	// sampled differential check of the "holds" side: a model of this completed path is run natively
	// and must reach the end of the harness without failing any assertion
	if ex.WantPathSample != nil && len(res.Violations) == 0 && len(ex.threads) >= 1 && ex.WantPathSample(ex.harness) {
		if tape, ok := ex.minimizedTape(ex.C.True); ok {
			res.Witnesses = append(res.Witnesses, ReachWitness{ID: "\x00path", Tape: tape})
		}
	}
	if ex.failOb >= 0 {
		panic(pathEnd{PathInconclusive, fmt.Sprintf("engine: scheduled obligation %d not reached (non-determinism)", ex.failOb)})
	}
	if ex.dpos < len(ex.dec) {
		panic(pathEnd{PathInconclusive, "engine: decision prefix not consumed (non-determinism)"})
	}
	if len(res.Violations) > 0 {
		res.Status = PathViolation
	} else {
		res.Status = PathOK
	}
	return
}

// ---- path condition management ----

func (ex *Exec) assertFact(c *term.T) {
	if c.IsTrue() {
		return
	}
	if ex.known[c.ID] {
		return
	}
	ex.known[c.ID] = true
	if c.Op == term.OBAnd {
		ex.known[c.A.ID] = true
		ex.known[c.B.ID] = true
	}
	ex.noteUsed(c)
	ex.S.Assert(c)
}

// noteUsed records the input variables and base arrays a newly asserted fact talks about.
func (ex *Exec) noteUsed(t *term.T) {
	stack := []*term.T{t}
	for len(stack) > 0 {
		n := stack[len(stack)-1]
		stack = stack[:len(stack)-1]
		if n == nil || n.Op == term.OConst || ex.leafDone[n.ID] {
			continue
		}
		ex.leafDone[n.ID] = true
		switch n.Op {
		case term.OVar:
			ex.usedVar[n.ID] = true
		case term.OSelect:
			ex.usedArr[n.Arr.ID] = true
		}
		stack = append(stack, n.A, n.B, n.C)
	}
}

// freshSat decides path ∧ extras WITHOUT the solver in one frequent special case: the extras mention only
// inputs (variables, base arrays) that occur nowhere in the path condition asserted so far. The path
// condition is satisfiable (every continued path is), its models do not constrain those inputs, so the
// conjunction is satisfiable iff the extras are satisfiable on their own; that is established by evaluating
// them under a few uniform candidate assignments (all fresh inputs 0, 1, 2, ...). Failing to find one
// proves nothing and the solver is asked as usual. Typical hit: vf.Assume(lo <= x && x <= hi) on a freshly
// drawn x (the kernel model draws a clock increment per epoll_wait).
func (ex *Exec) freshSat(extra []*term.T) bool {
	if len(extra) == 0 {
		return false
	}
	var leaves []*term.T
	seen := map[int32]bool{}
	stack := append([]*term.T(nil), extra...)
	for len(stack) > 0 {
		n := stack[len(stack)-1]
		stack = stack[:len(stack)-1]
		if n == nil || n.Op == term.OConst || seen[n.ID] {
			continue
		}
		seen[n.ID] = true
		if len(seen) > 256 {
			return false
		}
		switch n.Op {
		case term.OVar:
			if ex.usedVar[n.ID] {
				return false
			}
			leaves = append(leaves, n)
		case term.OSelect:
			if ex.usedArr[n.Arr.ID] {
				return false
			}
			leaves = append(leaves, n)
		}
		stack = append(stack, n.A, n.B, n.C)
	}
	for _, cand := range [...]uint64{0, 1, 2, 8, 255, ^uint64(0)} {
		model := make(map[int32]uint64, len(leaves))
		for _, l := range leaves {
			v := cand
			switch {
			case l.W == 0:
				v &= 1
			case l.W < 64:
				v &= 1<<l.W - 1
			}
			model[l.ID] = v
		}
		memo := map[int32]uint64{}
		all := true
		for _, e := range extra {
			if v, ok := term.Eval(e, model, memo); !ok || v == 0 {
				all = false
				break
			}
		}
		if all {
			return true
		}
	}
	return false
}

func (ex *Exec) syntactic(c *term.T) (val, ok bool) {
	if c.IsConst() {
		return c.K != 0, true
	}
	if ex.known[c.ID] {
		return true, true
	}
	if c.Op == term.OBNot && ex.known[c.A.ID] {
		return false, true
	}
	n := ex.C.BNot(c)
	if ex.known[n.ID] {
		return false, true
	}
	return false, false
}

var noFreshSat = os.Getenv("SSE_NOFRESHSAT") != ""

func (ex *Exec) check(extra ...*term.T) smt.Result {
	if !noFreshSat && ex.freshSat(extra) {
		ex.FreshSat++
		return smt.Sat
	}
	ex.S.Where = ex.posString(ex.curPos)
	r := ex.S.Check(extra...)
	if ex.S.Err != nil {
		panic(pathEnd{PathInconclusive, "solver: " + ex.S.Err.Error()})
	}
	if r == smt.Unknown {
		panic(pathEnd{PathInconclusive, "solver answered unknown/timeout at " + ex.posString(ex.curPos)})
	}
	return r
}

// Branch decides a symbolic condition; returns the side taken.
func (ex *Exec) Branch(c *term.T) bool {
	if v, ok := ex.syntactic(c); ok {
		return v
	}
	nc := ex.C.BNot(c)
	replay := ex.dpos < len(ex.dec)
	if replay {
		ex.assumeObs()
	} else {
		ex.flushObs()
	}
	if v, ok := ex.syntactic(c); ok {
		return v
	}
	if replay {
		d := ex.dec[ex.dpos]
		ex.dpos++
		ex.trace = append(ex.trace, d)
		if d == 1 {
			ex.assertFact(c)
			return true
		}
		ex.assertFact(nc)
		return false
	}
	ex.res.Branches++
	if ex.check(c) == smt.Unsat {
		// the path is satisfiable, so the other side is feasible
		ex.trace = append(ex.trace, 0)
		ex.assertFact(nc)
		return false
	}
	if ex.check(nc) == smt.Unsat {
		ex.trace = append(ex.trace, 1)
		ex.assertFact(c)
		return true
	}
	// both feasible: fork
	alt := append(append([]uint64(nil), ex.trace...), 0)
	ex.res.New = append(ex.res.New, WorkItem{Dec: alt, FailOb: -1})
	ex.trace = append(ex.trace, 1)
	ex.assertFact(c)
	return true
}

// ForkConst forks k ways over a fresh unconstrained choice (no solver query:
// all values are feasible because nothing constrains the choice yet).
func (ex *Exec) ForkConst(k int) uint64 {
	if k <= 1 {
		return 0
	}
	if ex.dpos < len(ex.dec) {
		d := ex.dec[ex.dpos]
		ex.dpos++
		ex.trace = append(ex.trace, d)
		return d
	}
	// pending obligations are decided first so that a scheduled failure keeps its prefix
	ex.flushObs()
	ex.res.Branches++
	for v := k - 1; v >= 1; v-- {
		alt := append(append([]uint64(nil), ex.trace...), uint64(v))
		ex.res.New = append(ex.res.New, WorkItem{Dec: alt, FailOb: -1})
	}
	ex.trace = append(ex.trace, 0)
	return 0
}

// Concretize forks over the feasible values of t (at most max).
func (ex *Exec) Concretize(t *term.T, max int, what string) *term.T {
	if t.IsConst() {
		return t
	}
	if ex.dpos < len(ex.dec) {
		d := ex.dec[ex.dpos]
		ex.dpos++
		ex.trace = append(ex.trace, d)
		ex.assumeObs()
		k := ex.C.Const(t.W, d)
		ex.assertFact(ex.C.Eq(t, k))
		return k
	}
	ex.flushObs()
	ex.S.Declare(t)
	var vals []uint64
	var excl []*term.T
	for {
		r := ex.S.CheckKeep(excl...)
		if ex.S.Err != nil || r == smt.Unknown {
			ex.S.Release()
			panic(pathEnd{PathInconclusive, "solver unknown during concretize of " + what})
		}
		if r == smt.Unsat {
			ex.S.Release()
			break
		}
		// t must be defined to read it; define before keep -> do it via separate step
		v := ex.S.Values([]*term.T{t})
		ex.S.Release()
		if ex.S.Err != nil {
			panic(pathEnd{PathInconclusive, "solver: " + ex.S.Err.Error()})
		}
		vals = append(vals, v[0])
		excl = append(excl, ex.C.BNot(ex.C.Eq(t, ex.C.Const(t.W, v[0]))))
		if len(vals) > max {
			panic(pathEnd{PathInconclusive, fmt.Sprintf("concretize %s: more than %d feasible values at %s", what, max, ex.posString(ex.curPos))})
		}
	}
	if len(vals) == 0 {
		panic(pathEnd{PathInconclusive, "engine: path became infeasible at concretize"})
	}
	sort.Slice(vals, func(i, j int) bool { return vals[i] < vals[j] })
	ex.res.Branches++
	if len(vals) > 1 {
		for _, v := range vals[1:] {
			alt := append(append([]uint64(nil), ex.trace...), v)
			ex.res.New = append(ex.res.New, WorkItem{Dec: alt, FailOb: -1})
		}
	}
	// a single value is recorded too so that replays stay aligned
	ex.trace = append(ex.trace, vals[0])
	k := ex.C.Const(t.W, vals[0])
	ex.assertFact(ex.C.Eq(t, k))
	return k
}

// Oblige records a safety obligation (bounds, nil, div-by-zero ...).
func (ex *Exec) Oblige(c *term.T, kind string) {
	if c.IsTrue() || ex.known[c.ID] {
		return
	}
	seq := ex.obSeq
	ex.obSeq++
	if ex.failOb == seq {
		ex.assumeObs()
		ex.failOb = -1
		ex.assertFact(ex.C.BNot(c))
		ex.violationHere("panic", kind+" at "+ex.posString(ex.curPos), ex.C.True)
		panic(pathEnd{PathViolation, "panic: " + kind})
	}
	if c.IsFalse() {
		ex.flushObs()
		ex.violationHere("panic", kind+" at "+ex.posString(ex.curPos), ex.C.True)
		panic(pathEnd{PathViolation, "panic: " + kind})
	}
	ex.pending = append(ex.pending, ob{c, kind, ex.curPos, seq})
}

// assumeObs turns the pending obligations into facts without asking
// (they were decided when this prefix was first explored).
func (ex *Exec) assumeObs() {
	for _, o := range ex.pending {
		ex.assertFact(o.cond)
	}
	ex.pending = ex.pending[:0]
}

// flushObs decides all pending obligations with as few queries as possible.
func (ex *Exec) flushObs() {
	if len(ex.pending) == 0 {
		return
	}
	if ex.dpos < len(ex.dec) {
		ex.assumeObs()
		return
	}
	failed := false
	for len(ex.pending) > 0 {
		neg := ex.C.False
		for _, o := range ex.pending {
			neg = ex.C.BOr(neg, ex.C.BNot(o.cond))
		}
		conds := make([]*term.T, len(ex.pending))
		for i, o := range ex.pending {
			conds[i] = o.cond
		}
		for _, t := range conds {
			ex.S.Declare(t)
		}
		r := ex.S.CheckKeep(neg)
		if ex.S.Err != nil || r == smt.Unknown {
			ex.S.Release()
			panic(pathEnd{PathInconclusive, "solver unknown while deciding safety obligations at " + ex.posString(ex.pending[0].pos)})
		}
		if r == smt.Unsat {
			ex.S.Release()
			break
		}
		vals := ex.S.Values(conds)
		ex.S.Release()
		k := -1
		for i, v := range vals {
			if v == 0 {
				k = i
				break
			}
		}
		if k < 0 {
			panic(pathEnd{PathInconclusive, "engine: model violates no obligation"})
		}
		o := ex.pending[k]
		ex.res.New = append(ex.res.New, WorkItem{Dec: append([]uint64(nil), ex.trace...), FailOb: o.seq})
		// obligations before k held in this model; all of them are assumed from now on
		ex.assertFact(o.cond)
		ex.pending = append(ex.pending[:k], ex.pending[k+1:]...)
		failed = true
	}
	ex.assumeObs()
	if failed {
		if ex.check() == smt.Unsat {
			panic(pathEnd{PathPruned, "all executions panic earlier"})
		}
	}
}

// Assume restricts the path.
func (ex *Exec) Assume(c *term.T) {
	if v, ok := ex.syntactic(c); ok {
		if !v {
			panic(pathEnd{PathPruned, "assume false"})
		}
		return
	}
	if ex.dpos < len(ex.dec) {
		// prefix replay: feasibility of the whole prefix is known
		ex.assumeObs()
		ex.assertFact(c)
		return
	}
	ex.flushObs()
	if ex.check(c) == smt.Unsat {
		panic(pathEnd{PathPruned, "assume infeasible"})
	}
	ex.assertFact(c)
}

// model extracts a tape from the solver model (scope must be kept open by caller with Sat result).
func (ex *Exec) extractTape() []TapeEntry {
	tape := make([]TapeEntry, len(ex.tape))
	copy(tape, ex.tape)
	var ts []*term.T
	for _, e := range tape {
		if e.t != nil {
			ts = append(ts, e.t)
		}
	}
	vals := ex.S.Values(ts)
	vi := 0
	for i := range tape {
		e := &tape[i]
		if e.t == nil {
			continue
		}
		v := vals[vi]
		vi++
		switch e.Kind {
		case "bytes":
			e.Len = int64(v)
		case "bool":
			e.V = fmt.Sprint(v)
		case "int":
			e.V = fmt.Sprint(int64(v))
		default:
			e.V = fmt.Sprint(v)
		}
	}
	return tape
}

// modelTape asks for a model of path ∧ extra and turns it into a tape. Array
// contents are read only at the indices the path actually constrains (the
// select nodes defined so far); every other byte is unconstrained and left 0.
func (ex *Exec) modelTape(extra ...*term.T) ([]TapeEntry, bool) {
	for _, e := range ex.tape {
		if e.t != nil {
			ex.S.Declare(e.t)
		}
	}
	// the condition's own select nodes must be defined before the live selects are collected (a feasibility
	// check answered without the solver has not defined them)
	for _, e := range extra {
		ex.S.Declare(e)
	}
	sels := ex.S.LiveSelects()
	for _, n := range sels {
		ex.S.Declare(n.A)
	}
	r := ex.S.CheckKeep(extra...)
	if ex.S.Err != nil || r != smt.Sat {
		ex.S.Release()
		return nil, false
	}
	tape := ex.extractTape()
	var q []*term.T
	for _, n := range sels {
		q = append(q, n.A, n)
	}
	vals := ex.S.Values(q)
	ex.S.Release()
	if ex.S.Err != nil {
		return nil, false
	}
	for i := range tape {
		e := &tape[i]
		if e.Kind != "bytes" || e.Len <= 0 {
			continue
		}
		if e.Len > 1<<26 {
			return nil, false // too large to replay
		}
		var buf []byte
		for k, n := range sels {
			if n.Arr != e.arr {
				continue
			}
			idx, v := vals[2*k], vals[2*k+1]
			if int64(idx) < 0 || int64(idx) >= e.Len {
				continue
			}
			if buf == nil {
				buf = make([]byte, e.Len)
			}
			buf[idx] = byte(v)
		}
		// trailing zeros need not be stored: the native side pads to Len
		end := len(buf)
		for end > 0 && buf[end-1] == 0 {
			end--
		}
		e.B = buf[:end]
	}
	return tape, true
}

// lenCaps are tried in order to obtain replayable models.
var lenCaps = []uint64{1 << 8, 1 << 12, 1 << 16, 1 << 20}

func (ex *Exec) minimizedTape(cond *term.T) ([]TapeEntry, bool) {
	var lens []*term.T
	for _, e := range ex.tape {
		if e.Kind == "bytes" || e.Kind == "len" {
			lens = append(lens, e.t)
		}
	}
	if len(lens) > 0 {
		for _, cp := range lenCaps {
			c := cond
			for _, l := range lens {
				if l.IsConst() {
					continue
				}
				c = ex.C.BAnd(c, ex.C.Ule(l, ex.C.Const(l.W, cp)))
			}
			if tp, ok := ex.modelTape(c); ok {
				return tp, true
			}
			if ex.S.Err != nil {
				return nil, false
			}
		}
	}
	return ex.modelTape(cond)
}

// violationHere handles a feasible failure (cond = the failing condition,
// i.e. ¬A for an assertion, true for a panic) with respect to known regions.
func (ex *Exec) violationHere(kind, what string, cond *term.T) {
	notR := ex.C.True
	for _, rg := range ex.regions {
		notR = ex.C.BAnd(notR, ex.C.BNot(rg.cond))
	}
	fresh := ex.C.BAnd(cond, notR)
	if ex.check(fresh) == smt.Sat {
		tape, ok := ex.minimizedTape(fresh)
		v := Violation{Harness: ex.harness, What: what, Pos: ex.posString(ex.curPos), Kind: kind}
		if ok {
			v.Tape = tape
		} else {
			v.What += " (UNREPLAYABLE: no model small enough)"
		}
		ex.res.Violations = append(ex.res.Violations, v)
	}
	for _, rg := range ex.regions {
		if ex.check(ex.C.BAnd(cond, rg.cond)) == smt.Sat {
			ex.res.KnownSeen = append(ex.res.KnownSeen, rg.id)
		}
	}
}

// Assert is vf.Assert.
func (ex *Exec) Assert(id string, c *term.T) {
	if ex.dpos < len(ex.dec) {
		// decided by the path this one was forked from
		ex.assumeObs()
		ex.assertFact(c)
		return
	}
	ex.flushObs()
	ex.res.Asserts++
	if v, ok := ex.syntactic(c); ok && v {
		return
	}
	nc := ex.C.BNot(c)
	if ex.check(nc) == smt.Unsat {
		ex.assertFact(c)
		return
	}
	ex.violationHere("assert", id, nc)
	// continue only where the assertion holds
	if c.IsFalse() || ex.check(c) == smt.Unsat {
		panic(pathEnd{PathPruned, "assertion " + id + " fails on every execution of this path"})
	}
	ex.assertFact(c)
}

func (ex *Exec) Reach(id string) {
	ex.res.Reached[id] = true
	if ex.NeedWit != nil && ex.NeedWit(ex.harness+"/"+id) {
		ex.flushObs()
		if tape, ok := ex.minimizedTape(ex.C.True); ok {
			ex.res.Witnesses = append(ex.res.Witnesses, ReachWitness{ID: id, Tape: tape})
		}
	}
}

func (ex *Exec) explicitPanic(msg string) {
	ex.flushObs()
	ex.violationHere("panic", msg+" at "+ex.posString(ex.curPos), ex.C.True)
	panic(pathEnd{PathViolation, "panic: " + msg})
}

// ---- globals ----

var lazyInitPkgs = map[string]bool{"io": true, "unicode/utf8": true,
	"sort": true, "math/bits": true, "io/fs": false}

func isOurs(p *ssa.Package) bool {
	return p != nil && strings.HasPrefix(p.Pkg.Path(), SonicPath)
}

func (ex *Exec) ensureInit(p *ssa.Package) {
	if p == nil || ex.initDone[p] {
		return
	}
	ex.initDone[p] = true
	if !isOurs(p) && !lazyInitPkgs[p.Pkg.Path()] {
		return
	}
	if init := p.Func("init"); init != nil && len(init.Blocks) > 0 {
		saved := ex.curPos
		prev := ex.initDirect
		ex.initDirect = init
		ex.callFn(init, nil, nil)
		ex.initDirect = prev
		ex.curPos = saved
	}
}

func (ex *Exec) globalLoc(g *ssa.Global) *Value {
	if loc, ok := ex.globals[g]; ok {
		return loc
	}
	loc := new(Value)
	elemT := g.Type().(*types.Pointer).Elem()
	*loc = ex.zero(elemT)
	ex.globals[g] = loc
	if g.Pkg != nil && !ex.initDone[g.Pkg] {
		if isOurs(g.Pkg) || lazyInitPkgs[g.Pkg.Pkg.Path()] {
			ex.ensureInit(g.Pkg)
		} else if !ex.depGlobal(g, loc) {
			ex.unsupported("read of dependency global " + g.String())
		}
	} else if g.Pkg != nil && !isOurs(g.Pkg) && !lazyInitPkgs[g.Pkg.Pkg.Path()] {
		if !ex.depGlobal(g, loc) {
			ex.unsupported("read of dependency global " + g.String())
		}
	}
	return loc
}

// depGlobal gives hand-written values to the few dependency globals that the
// targeted code reads. Error-typed globals become distinct opaque errors.
func (ex *Exec) depGlobal(g *ssa.Global, loc *Value) bool {
	elemT := g.Type().(*types.Pointer).Elem()
	if types.Identical(elemT, types.Universe.Lookup("error").Type()) {
		*loc = ex.opaqueError(g.String())
		return true
	}
	if st, ok := elemT.Underlying().(*types.Struct); ok && st.NumFields() == 0 {
		return true
	}
	switch g.String() {
	case "net/netip.z0":
		return true // the zero handle
	case "net/netip.z4", "net/netip.z6noz":
		// unique.Handle[addrDetail]{value: &addrDetail{isV6, zoneV6}}: two distinct canonical objects
		inner := new(Value)
		*inner = Struct{ex.C.Bool(g.String() == "net/netip.z6noz"), ""}
		*loc = Struct{Ptr{Loc: inner}}
		return true
	case "net.IPv4zero":
		*loc = ex.bytesSlice([]byte{0, 0, 0, 0})
		return true
	case "net.IPv6zero", "net.IPv6unspecified":
		*loc = ex.bytesSlice(make([]byte, 16))
		return true
	case "net.v4InV6Prefix":
		*loc = ex.bytesSlice([]byte{0, 0, 0, 0, 0, 0, 0, 0, 0, 0, 0xff, 0xff})
		return true
	case "os.Args", "syscall.envs":
		return false
	}
	if os.Getenv("SSE_DEBUG_GLOBALS") != "" {
		fmt.Fprintln(os.Stderr, "dep global:", g.String(), elemT)
	}
	return false
}

func (ex *Exec) bytesSlice(b []byte) Slice {
	loc := new(Value)
	arr := ex.C.ZeroArr()
	for i, x := range b {
		arr = ex.C.Store(arr, ex.constInt(int64(i)), ex.C.Const(8, uint64(x)))
	}
	*loc = BArr{A: arr, N: -1}
	n := ex.constInt(int64(len(b)))
	return Slice{Base: loc, Off: ex.constInt(0), Len: n, Cap: n, Byte: true}
}

//go:build verif

package internal

// Harness access to poller internals (overlay only).

func VerifPollerFd(p Poller) int          { return p.(*poller).fd }
func VerifWakerFd(p Poller) int           { return p.(*poller).waker.fd }
func VerifPostsLen(p Poller) int          { return len(p.(*poller).posts) }
func VerifTimerFd(t *Timer) int           { return t.fd }
func VerifTimerSlot(t *Timer) *Slot       { return &t.slot }

//go:build verif

package bytes

import (
	"github.com/talostrading/sonic/internal/vf"
	"github.com/talostrading/sonic/internal/vsys/vkernel"
)

// C11 — MirroredBuffer ring arithmetic. One step of each operation from an
// ARBITRARY state of a buffer whose size / sizeMask / slice are what the
// constructor produces for an accepted size (any positive multiple of the
// 4096-byte page, power of two or not): the state invariant
//   0 <= used <= size, 0 <= head < size, tail == (head + used) mod size
// is re-established, so successive commits occupy consecutive ring positions
// and histories of any length are covered.

const c11Page = 4096

// c11SizeRule mirrors what NewMirroredBuffer computes from the requested size (checked by VerifC11_SizeRule).
func c11Arbitrary() (*MirroredBuffer, int) {
	m := vf.Len("pages")
	vf.Assume(vf.All(1 <= m, m <= 1<<28))
	size := m * c11Page
	b := &MirroredBuffer{slice: vf.Bytes("mem", 2*size), size: size, sizeMask: size - 1}
	b.head = vf.Int("head")
	b.used = vf.Int("used")
	b.tail = vf.Int("tail")
	vf.Assume(c11Inv(b))
	return b, size
}

func c11Wrap(x, size int) int {
	if x >= size {
		return x - size
	}
	return x
}

func c11Inv(b *MirroredBuffer) bool {
	return vf.All(0 <= b.used, b.used <= b.size, 0 <= b.head, b.head < b.size, 0 <= b.tail, b.tail < b.size,
		b.tail == c11Wrap(b.head+b.used, b.size), len(b.slice) == 2*b.size,
		b.FreeSpace()+b.UsedSpace() == b.size)
}

func VerifC11_Claim() {
	b, size := c11Arbitrary()
	n := vf.Int("n")
	vf.Assume(n >= 0)
	head, tail, used := b.head, b.tail, b.used
	free := size - used
	c := b.Claim(n)
	want := n
	if want > free {
		want = free
	}
	vf.Assert("claim-length-is-min-of-n-and-free", len(c) == want)
	vf.Assert("claim-changes-no-state", vf.All(b.head == head, b.tail == tail, b.used == used))
	if want > 0 {
		vf.Reach("non-empty-claim")
		// contiguous, starting at ring position tail: it is &slice[tail]
		vf.Assert("claim-starts-at-the-tail", &c[0] == &b.slice[tail])
		// it never aliases a committed-but-unconsumed byte: ring positions tail..tail+want-1 (mod size)
		// are outside [head, head+used)
		k := vf.Int("k")
		vf.Assume(vf.All(0 <= k, k < want))
		pos := c11Wrap(tail+k, size)
		rel := pos - head
		if rel < 0 {
			rel += size
		}
		vf.Assert("claim-never-aliases-unconsumed-bytes", rel >= used)
		if tail+want > size {
			vf.Reach("claim-crosses-the-end-of-the-ring")
		}
	}
	vf.Assert("inv", c11Inv(b))
	vf.Reach("end")
}

func VerifC11_Commit() {
	b, size := c11Arbitrary()
	n := vf.Int("n")
	vf.Assume(n >= 0)
	head, tail, used := b.head, b.tail, b.used
	free := size - used
	want := n
	if want > free {
		want = free
	}
	got := b.Commit(n)
	vf.Assert("commit-amount", got == want)
	vf.Assert("commit-extends-used", vf.All(b.used == used+want, b.head == head))
	vf.Assert("commits-occupy-consecutive-ring-positions", b.tail == c11Wrap(tail+want, size))
	if size&(size-1) != 0 {
		vf.Reach("size-not-a-power-of-two")
	}
	vf.Assert("inv", c11Inv(b))
	vf.Assert("full-iff-no-free-space", b.Full() == (b.FreeSpace() == 0))
	vf.Reach("end")
}

func VerifC11_Consume() {
	b, size := c11Arbitrary()
	n := vf.Int("n")
	vf.Assume(n >= 0)
	head, tail, used := b.head, b.tail, b.used
	want := n
	if want > used {
		want = used
	}
	got := b.Consume(n)
	vf.Assert("consume-amount", got == want)
	vf.Assert("consume-frees-the-oldest-bytes", vf.All(b.used == used-want, b.tail == tail, b.head == c11Wrap(head+want, size)))
	vf.Assert("inv", c11Inv(b))
	vf.Reach("end")
}

func VerifC11_Reset() {
	b, size := c11Arbitrary()
	b.Reset()
	vf.Assert("reset", vf.All(b.UsedSpace() == 0, b.FreeSpace() == size, !b.Full(), b.Size() == size))
	vf.Assert("inv", c11Inv(b))
	vf.Reach("end")
}

// The real constructor on the environment model: which sizes it accepts, what
// size/slice it produces, and that every path — success followed by Destroy,
// and every failure — leaves no descriptor, temporary file or mapping behind.
func VerifC11_Constructor() {
	cfg := vkernel.Config{AllowAllocFail: true, AllowOptFail: true}
	vkernel.Reset(cfg)
	req := vf.Len("requested-size") // any int in the range; Len only asks for small values in replayable models
	vf.Assume(vf.All(-8192 <= req, req <= 1<<40))
	fds := vkernel.OpenCount()
	b, err := NewMirroredBuffer(req, vf.Bool("prefault"))
	if err != nil {
		vf.Reach("failed")
		vf.Assert("failed-constructor-leaves-no-descriptor", vkernel.OpenCount() == fds)
		vf.Assert("failed-constructor-leaves-no-file", vkernel.K.Log.Files == 0)
		vf.Assert("failed-constructor-leaves-no-mapping", vkernel.K.Log.Mappings == 0)
		if req <= 0 {
			vf.Reach("non-positive-size-refused")
		}
		return
	}
	vf.Reach("ok")
	vf.Assert("accepts-only-positive-sizes", req > 0)
	size := b.Size()
	vf.Assert("size-is-request-rounded-up-to-a-page", vf.All(size >= req, size < req+c11Page, size&(c11Page-1) == 0, size > 0))
	vf.Assert("slice-is-twice-the-size", len(b.slice) == 2*size)
	vf.Assert("both-halves-mapped-from-the-file", vkernel.K.Log.Remaps == 2)
	vf.Assert("starts-empty", vf.All(b.UsedSpace() == 0, b.FreeSpace() == size, b.head == 0, b.tail == 0))
	vf.Assert("descriptor-and-file-released-after-construction", vf.All(vkernel.OpenCount() == fds, vkernel.K.Log.Files == 0))
	vf.Assert("one-mapping-while-alive", vkernel.K.Log.Mappings == 1)
	if size&(size-1) != 0 {
		vf.Reach("opt:non-power-of-two-size")
	}
	vf.Assert("destroy-ok", b.Destroy() == nil)
	vf.Assert("destroy-releases-the-mapping", vkernel.K.Log.Mappings == 0)
	b.Destroy()
	vf.Assert("second-destroy-is-a-no-op", vkernel.K.Log.Mappings == 0)
	vf.Reach("end")
}

//go:build verif

package websocket

import (
	"github.com/talostrading/sonic"
	"github.com/talostrading/sonic/internal/vf"
	sync "github.com/talostrading/sonic/internal/vsys/vsync"
)

// Shared machinery for the stream-level harnesses (C06, C08, C15, C16, C17):
// a client Stream in StateActive over the scripted transport, a reference
// frame encoder/decoder written independently of frame.go, and peer scripts.

func wsNewStream(t sonic.Stream, max int) *Stream {
	s := &Stream{
		role:           RoleClient,
		src:            sonic.NewByteBuffer(),
		dst:            sonic.NewByteBuffer(),
		state:          StateActive,
		maxMessageSize: max,
		framePool: sync.Pool{
			New: func() interface{} {
				frame := NewFrame()
				return &frame
			},
		},
	}
	s.src.Reserve(4096)
	s.dst.Reserve(4096)
	if err := s.init(t); err != nil {
		vf.Assume(false)
	}
	return s
}

// ---- peer script ----

type wsFrame struct {
	fin     bool
	rsv     byte // bits 0x40|0x20|0x10
	opcode  byte
	masked  bool
	n       int    // payload length
	lenEnc  int    // 0: shortest; 2 or 8: force this extended length encoding (mutations)
	payload []byte // len n
}

func wsIsControl(op byte) bool { return op >= 8 }

// wsEncode appends the wire form of f (server to client: unmasked unless f.masked).
func wsEncode(wire []byte, f *wsFrame) []byte {
	b0 := f.opcode&0x0f | f.rsv
	if f.fin {
		b0 |= 0x80
	}
	enc := f.lenEnc
	if enc == 0 {
		if f.n > 65535 {
			enc = 8
		} else if f.n > 125 {
			enc = 2
		}
	}
	var b1 byte
	switch enc {
	case 0:
		b1 = byte(f.n)
	case 2:
		b1 = 126
	case 8:
		b1 = 127
	}
	if f.masked {
		b1 |= 0x80
	}
	wire = append(wire, b0, b1)
	switch enc {
	case 2:
		wire = append(wire, byte(f.n>>8), byte(f.n))
	case 8:
		wire = append(wire, byte(f.n>>56), byte(f.n>>48), byte(f.n>>40), byte(f.n>>32), byte(f.n>>24), byte(f.n>>16), byte(f.n>>8), byte(f.n))
	}
	if f.masked {
		wire = append(wire, 0, 0, 0, 0) // zero key: payload unchanged
	}
	wire = append(wire, f.payload...)
	return wire
}

// wsPayloadLen draws a payload length from the class representatives (regime B).
func wsPayloadLen(name string, thoroughToo bool) int {
	if thoroughToo && vf.Thorough() {
		switch vf.Choice(name, 7) {
		case 0:
			return 0
		case 1:
			return 1
		case 2:
			return 2
		case 3:
			return 125
		case 4:
			return 126
		case 5:
			return 65535
		}
		return 65536
	}
	switch vf.Choice(name, 5) {
	case 0:
		return 0
	case 1:
		return 1
	case 2:
		return 2
	case 3:
		return 125
	}
	return 126
}

// ---- parsing what the client put on the wire (client to server: masked) ----

type wsOut struct {
	ok      bool // a complete well-formed frame starts at off
	fin     bool
	rsv     byte
	opcode  byte
	masked  bool
	n       int
	hdr     int
	total   int
	key     [4]byte
	shortest bool
}

// wsParseOut parses one frame of out starting at off (concrete offsets).
func wsParseOut(out []byte, off int) (p wsOut) {
	if len(out)-off < 2 {
		return
	}
	b0, b1 := out[off], out[off+1]
	p.fin, p.rsv, p.opcode = b0&0x80 != 0, b0&0x70, b0&0x0f
	p.masked = b1&0x80 != 0
	lf := int(b1 & 0x7f)
	p.hdr = 2
	p.shortest = true
	switch lf {
	case 126:
		if len(out)-off < 4 {
			return
		}
		p.n = int(out[off+2])<<8 | int(out[off+3])
		p.hdr = 4
		p.shortest = p.n > 125
	case 127:
		if len(out)-off < 10 {
			return
		}
		p.n = 0
		for i := 0; i < 8; i++ {
			p.n = p.n<<8 | int(out[off+2+i])
		}
		p.hdr = 10
		p.shortest = p.n > 65535
	default:
		p.n = lf
	}
	if p.masked {
		if len(out)-off < p.hdr+4 {
			return
		}
		copy(p.key[:], out[off+p.hdr:off+p.hdr+4])
		p.hdr += 4
	}
	p.total = p.hdr + p.n
	if p.n < 0 || len(out)-off < p.total {
		return
	}
	p.ok = true
	return
}

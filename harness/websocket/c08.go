//go:build verif

package websocket

import (
	"io"

	"github.com/talostrading/sonic"
	"github.com/talostrading/sonic/internal/vf"
)

// C08 — ping/pong and the closing handshake. The harness is the peer: it
// appends frames to the transport's input between the client's calls and
// keeps a ghost RFC 6455 state machine plus the list of frames the client
// must have put on the wire.

type c08World struct {
	s       *Stream
	t       *sonic.VerifTransport
	state   StreamState
	want    []c16Sent // frames the client must send, in order
	eofSeen bool
}

func (w *c08World) peer(fr *wsFrame) {
	w.t.In = wsEncode(w.t.In, fr)
	w.t.Total = len(w.t.In)
}

func (w *c08World) expect(op byte, payload []byte) {
	w.want = append(w.want, c16Sent{opcode: op, payload: payload, n: len(payload)})
}

// read performs one frame-level read through a symbolic choice of API.
func (w *c08World) read() (Frame, error) {
	if vf.Bool("async-read") {
		var f Frame
		var err error
		calls := 0
		w.s.AsyncNextFrame(func(e error, g Frame) { calls++; f, err = g, e })
		vf.Assert("async-read-callback-once", calls == 1)
		return f, err
	}
	return w.s.NextFrame()
}

func (w *c08World) canRead() bool { return w.state == StateActive || w.state == StateClosedByUs }

func (w *c08World) step() {
	switch vf.Choice("event", 10) {
	case 0: // peer ping
		n := [3]int{125, 0, 2}[vf.Choice("ping.len", vf.Bound("ping-length-classes", 2, 3))] // the largest legal control payload is in both tiers
		p := vf.Bytes("ping", n)
		w.peer(&wsFrame{fin: true, opcode: 9, n: n, payload: p})
		f, err := w.read()
		if w.canRead() {
			vf.Reach("opt:ping-read")
			vf.Assert("ping-delivered", vf.All(err == nil, f.Opcode() == OpcodePing, f.PayloadLength() == n))
			if w.state == StateActive {
				w.expect(10, p) // exactly one pong, identical payload
			}
		} else {
			vf.Assert("read-after-close-is-eof", err == io.EOF)
		}
	case 1: // peer pong: never answered
		w.peer(&wsFrame{fin: true, opcode: 10, n: 1, payload: vf.Bytes("pong", 1)})
		f, err := w.read()
		if w.canRead() {
			vf.Assert("pong-delivered", vf.All(err == nil, f.Opcode() == OpcodePong))
		} else {
			vf.Assert("read-after-close-is-eof", err == io.EOF)
		}
	case 2: // peer data
		w.peer(&wsFrame{fin: true, opcode: 2, n: 1, payload: vf.Bytes("data", 1)})
		f, err := w.read()
		if w.canRead() {
			vf.Assert("data-delivered", vf.All(err == nil, f.Opcode() == OpcodeBinary))
		} else {
			vf.Assert("read-after-close-is-eof", err == io.EOF)
		}
	case 3: // peer close, valid
		var payload []byte
		echo := []byte{0x03, 0xe8} // 1000 when the peer gave no status
		switch vf.Choice("close.form", 4) {
		case 0:
		case 1:
			payload = []byte{0x03, 0xe8} // 1000
			echo = payload
		case 2:
			payload = []byte{0x0b, 0xb8, 'o', 'k'} // 3000 with a reason
			echo = payload
		case 3:
			code := vf.Uint16("close.code")
			vf.Assume(vf.Any(code == 1001, code == 1003, code == 1011, vf.All(code >= 3000, code <= 4999)))
			payload = []byte{byte(code >> 8), byte(code)}
			echo = payload
		}
		w.peer(&wsFrame{fin: true, opcode: 8, n: len(payload), payload: payload})
		f, err := w.read()
		switch w.state {
		case StateActive:
			vf.Reach("peer-starts-close")
			vf.Assert("close-delivered", vf.All(err == nil, f.Opcode() == OpcodeClose))
			w.state = StateClosedByPeer
			w.expect(8, echo)
		case StateClosedByUs:
			vf.Reach("peer-acks-our-close")
			vf.Assert("close-ack-delivered", vf.All(err == nil, f.Opcode() == OpcodeClose))
			w.state = StateCloseAcked
		default:
			vf.Assert("read-after-close-is-eof", err == io.EOF)
		}
	case 4: // peer close, invalid payload: answered with 1002
		var payload []byte
		switch vf.Choice("bad.close", 3) {
		case 0:
			payload = []byte{0x03} // one byte
		case 1:
			payload = []byte{0x03, 0xed} // 1005 may not appear on the wire
		case 2:
			payload = []byte{0x03, 0xe8, 0xff} // reason is not UTF-8
		}
		w.peer(&wsFrame{fin: true, opcode: 8, n: len(payload), payload: payload})
		_, err := w.read()
		switch w.state {
		case StateActive:
			vf.Reach("invalid-close")
			vf.Assert("invalid-close-delivered", err == nil)
			w.state = StateClosedByPeer
			w.expect(8, []byte{0x03, 0xea})
		case StateClosedByUs:
			w.state = StateCloseAcked
		default:
			vf.Assert("read-after-close-is-eof", err == io.EOF)
		}
	case 5: // protocol violation
		w.peer(&wsFrame{fin: true, opcode: 1, rsv: 0x40, n: 1, payload: vf.Bytes("bad", 1)})
		_, err := w.read()
		switch w.state {
		case StateActive:
			vf.Reach("violation-while-active")
			vf.Assert("violation-reported", err != nil)
			w.state = StateClosedByUs
			w.expect(8, []byte{0x03, 0xea})
		case StateClosedByUs:
			// our Close is already out: the error is reported, but no second Close may follow it
			vf.Reach("violation-after-our-close")
			vf.Assert("violation-reported", err != nil)
		default:
			vf.Assert("read-after-close-is-eof", err == io.EOF)
		}
	case 6: // the transport ends without a Close
		if w.t.InOff < w.t.Total {
			return
		}
		f, err := w.read()
		if w.canRead() {
			vf.Reach("abnormal-closure")
			vf.Assert("eof-surfaces-as-a-close-frame", vf.All(err == io.EOF, f != nil, len(f) >= 4))
			vf.Assert("eof-surfaces-as-1006", vf.All(f.Opcode() == OpcodeClose, f.PayloadLength() == 2,
				int(f.Payload()[0])<<8|int(f.Payload()[1]) == 1006))
			w.state = StateTerminated
		} else {
			vf.Assert("read-after-close-is-eof", err == io.EOF)
		}
	case 7: // local write
		b := vf.Bytes("app", 1)
		var err error
		if vf.Bool("async-write") {
			calls := 0
			w.s.AsyncWrite(b, TypeText, func(e error) { calls++; err = e })
			vf.Assert("async-write-callback-once", calls == 1)
		} else {
			err = w.s.Write(b, TypeText)
		}
		if w.state == StateActive {
			vf.Assert("write-while-active-ok", err == nil)
			w.expect(1, b)
		} else {
			vf.Reach("opt:write-refused")
			vf.Assert("write-refused-once-closing", err != nil)
		}
	case 8: // local flush
		vf.Assert("flush-ok", w.s.Flush() == nil)
	case 9: // local close
		err := w.s.Close(CloseNormal, "")
		if w.state == StateActive {
			vf.Reach("we-start-close")
			vf.Assert("close-ok", err == nil)
			w.state = StateClosedByUs
			w.expect(8, []byte{0x03, 0xe8})
		} else {
			vf.Assert("close-when-not-active-is-an-error", err != nil)
		}
	}
}

// check compares the wire with the ghost list; flushed says whether everything queued must be out already.
func (w *c08World) check(flushed bool) {
	// once a terminal stage is reached a further read attempt may mark the stream terminated
	terminal := w.state == StateClosedByPeer || w.state == StateCloseAcked || w.state == StateTerminated
	if terminal {
		st := w.s.State()
		vf.Assert("state-reflects-the-stage", vf.Any(st == w.state, st == StateTerminated))
	} else {
		vf.Assert("state-reflects-the-stage", w.s.State() == w.state)
	}
	out := w.t.Out
	off, closes, i := 0, 0, 0
	for off < len(out) {
		p := wsParseOut(out, off)
		vf.Assert("wire-frames-are-whole", p.ok)
		vf.Assert("wire-frame-expected", i < len(w.want))
		vf.Assert("wire-frame-matches", vf.All(p.masked, p.fin, p.opcode == w.want[i].opcode, p.n == w.want[i].n))
		if flushed {
			for j := 0; j < p.n; j++ {
				vf.Assert("wire-payload-matches", out[off+p.hdr+j]^p.key[j&3] == w.want[i].payload[j])
			}
		}
		vf.Assert("nothing-after-our-close-frame", closes == 0)
		if p.opcode == 8 {
			closes++
		}
		off += p.total
		i++
	}
	vf.Assert("at-most-one-close-frame", closes <= 1)
	if flushed {
		vf.Assert("everything-due-was-sent", i == len(w.want))
	} else {
		// what is not on the wire yet is queued, in order
		vf.Assert("queued-frames-account-for-the-rest", w.s.Pending() == len(w.want)-i)
	}
}

func VerifC08_History() {
	t := &sonic.VerifTransport{Concrete: true, MaxWSegs: 1, SplitLimit: 2}
	w := &c08World{t: t, state: StateActive}
	w.s = wsNewStream(t, 1<<16)
	K := vf.Bound("k", 3, 3)
	vf.Unwind(300)
	for i := 0; i < K; i++ {
		t.Segs, t.MaxSegs = 0, vf.Bound("segments-per-read", 1, 2)
		t.WSegs = 0
		w.step()
		w.check(false)
	}
	t.WSegs = 0
	vf.Assert("final-flush-ok", w.s.Flush() == nil)
	w.check(true)
	vf.Reach("end")
}

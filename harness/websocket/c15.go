//go:build verif

package websocket

import (
	"github.com/talostrading/sonic"
	"github.com/talostrading/sonic/internal/vf"
)

// C15 — protocol violations are reported by every read API, never delivered
// as data; after a framing violation a 1002 Close is queued and writes are refused.

const (
	mutRSV = iota
	mutReservedOpcode
	mutMasked
	mutControlNotFIN
	mutControlLen16
	mutControlLen64
	mutContinuationWithoutMessage
	mutDataInsideMessage
	mutFrameOverMax
	nMut
)

func wsFramingViolation(k int) bool { return k <= mutControlLen64 }

// wsAfterFramingViolation checks the state the property demands after a framing violation.
func wsAfterFramingViolation(s *Stream, closedFirst bool) {
	vf.Assert("state-closed-by-us", s.State() == StateClosedByUs)
	if closedFirst {
		// our own Close is already out: C08's "never more than one Close frame" governs; only the error
		// and the refusal of writes are required
		vf.Assert("no-second-close-queued", s.Pending() == 0)
		vf.Assert("write-refused", s.Write([]byte("x"), TypeText) != nil)
		return
	}
	vf.Assert("close-frame-queued", s.Pending() >= 1)
	last := *s.pendingFrames[len(s.pendingFrames)-1]
	vf.Assert("queued-frame-is-close-1002", vf.All(last.Opcode() == OpcodeClose, last.IsFIN(), last.PayloadLength() == 2))
	// the payload is masked (client role): unmask with the frame's key
	p, k := last.Payload(), last.Mask()
	code := int(p[0]^k[0])<<8 | int(p[1]^k[1])
	vf.Assert("close-status-1002", code == 1002)
	q := s.Pending()
	vf.Assert("write-refused", s.Write([]byte("x"), TypeText) != nil)
	refused := false
	s.AsyncWrite([]byte("x"), TypeText, func(err error) { refused = err != nil })
	vf.Assert("asyncwrite-refused", refused)
	fr := s.AcquireFrame()
	fr.SetFIN().SetText().SetPayload([]byte("x"))
	vf.Assert("writeframe-refused", s.WriteFrame(fr) != nil)
	vf.Assert("nothing-more-queued", s.Pending() == q)
}

func VerifC15_Session() {
	F := vf.Bound("frames", 2, 2)
	sc := wsConformingScript(F, "small")
	max := 300
	// one mutation at a symbolic position
	m := vf.Choice("mutated.frame", sc.n)
	fr := &sc.f[m]
	kind := vf.Choice("mutation", nMut)
	inMsgBefore := false
	for i := 0; i < m; i++ {
		if !wsIsControl(sc.f[i].opcode) {
			inMsgBefore = !sc.f[i].fin
		}
	}
	switch kind {
	case mutRSV:
		if vf.Thorough() {
			fr.rsv = byte(1+vf.Choice("rsv", 7)) << 4 // every non-empty combination of RSV1..3
		} else {
			fr.rsv = byte(0x10) << uint(vf.Choice("rsv", 3)) // each bit alone
		}
	case mutReservedOpcode:
		if vf.Thorough() {
			r := vf.Choice("reserved", 10) // 3..7, 11..15
			if r < 5 {
				fr.opcode = byte(3 + r)
			} else {
				fr.opcode = byte(11 + r - 5)
			}
		} else {
			fr.opcode = [4]byte{3, 7, 11, 15}[vf.Choice("reserved", 4)]
		}
		if wsIsControl(fr.opcode) {
			fr.fin = true
			if fr.n > 125 {
				fr.n = 1
				fr.payload = fr.payload[:1]
			}
		}
	case mutMasked:
		fr.masked = true
	case mutControlNotFIN:
		vf.Assume(wsIsControl(fr.opcode))
		fr.fin = false
	case mutControlLen16:
		vf.Assume(wsIsControl(fr.opcode))
		fr.n = 126
		fr.payload = vf.Bytes("big-control", 126)
	case mutControlLen64:
		// a control frame that needs the 64-bit length form: 65536 payload bytes (thorough tier only: large)
		vf.Assume(vf.All(wsIsControl(fr.opcode), vf.Thorough()))
		fr.n = 65536
		fr.payload = vf.Bytes("huge-control", 65536)
		max = 70000 // the frame itself is within the size limit: only the control-frame rule is broken
	case mutContinuationWithoutMessage:
		vf.Assume(vf.All(!wsIsControl(fr.opcode), fr.opcode != 0))
		fr.opcode = 0
	case mutDataInsideMessage:
		vf.Assume(fr.opcode == 0)
		fr.opcode = 1 + byte(vf.Choice("data.type2", 2))
	case mutFrameOverMax:
		vf.Assume(!wsIsControl(fr.opcode))
		fr.n = max + 1
		fr.payload = vf.Bytes("over-max", max+1)
	}
	sc.encode()
	t := &sonic.VerifTransport{In: sc.wire, Total: len(sc.wire), Concrete: true, MaxWSegs: 1, MaxSegs: vf.Bound("segments", 2, 2), SplitLimit: vf.Bound("split-limit", 2, 3)}
	s := wsNewStream(t, max)
	vf.Unwind(400)
	// the violation may also arrive after the client has started the closing handshake itself and
	// keeps reading for the peer's Close
	closedFirst := vf.Bool("local-close-first")
	if closedFirst {
		vf.Assert("local-close-ok", s.Close(CloseNormal, "") == nil)
		vf.Reach("closed-by-us-first")
	}
	frameLevelViolation := kind != mutContinuationWithoutMessage && kind != mutDataInsideMessage
	switch vf.Choice("api", 2) {
	case 0: // frame level
		async := vf.Bool("async")
		for i := 0; i <= m; i++ {
			var f Frame
			var err error
			if async {
				calls := 0
				s.AsyncNextFrame(func(e error, g Frame) { calls++; f, err = g, e })
				vf.Assert("asyncnextframe-once", calls == 1)
			} else {
				f, err = s.NextFrame()
			}
			if i < m {
				vf.Assert("frames-before-the-violation-are-fine", err == nil)
				continue
			}
			if frameLevelViolation {
				vf.Reach("frame-level-violation")
				vf.Assert("violation-reported-by-frame-api", err != nil)
				if wsFramingViolation(kind) {
					wsAfterFramingViolation(s, closedFirst)
				}
			} else {
				// fragmentation rules are the message-level API's business
				vf.Assert("fragment-passes-frame-api", err == nil)
				_ = f
			}
		}
	case 1: // message level
		async := vf.Bool("async")
		b := make([]byte, 1000)
		delivered := 0
		var err error
		for r := 0; r < 3 && err == nil; r++ {
			var mt MessageType
			var n int
			if async {
				calls := 0
				s.AsyncNextMessage(b, func(e error, k int, t MessageType) { calls++; err, n, mt = e, k, t })
				if calls == 0 {
					break // script exhausted without completing a message: the read stays pending
				}
				vf.Assert("asyncnextmessage-once", calls == 1)
			} else {
				if t.InOff >= t.Total && s.src.ReadLen()+s.src.WriteLen() == 0 {
					break
				}
				mt, n, err = s.NextMessage(b)
			}
			_ = mt
			_ = n
			if err == nil {
				delivered++
			}
		}
		// messages completed strictly before the mutated frame may be delivered; the one containing it must not
		before := 0
		for i := 0; i < m; i++ {
			if !wsIsControl(sc.f[i].opcode) && sc.f[i].fin {
				before++
			}
		}
		_ = inMsgBefore
		vf.Reach("message-level")
		vf.Assert("violation-reported-by-message-api", err != nil)
		vf.Assert("nothing-after-the-violation-delivered-as-data", delivered <= before)
		if wsFramingViolation(kind) {
			wsAfterFramingViolation(s, closedFirst)
		}
	}
	vf.Reach("end")
}

// Size rules of the message-level API: a message whose fragments are each within the limit but
// whose total exceeds it, and a message that does not fit the caller's buffer, are rejected with an
// error and not delivered as data.
func VerifC15_SizeLimits() {
	max := 300
	var sc wsScript
	bufLen := 1000
	switch vf.Choice("case", 2) {
	case 0: // 200 + 200 > 300
		sc.f[0] = wsFrame{fin: false, opcode: 1 + byte(vf.Choice("type", 2)), n: 200, payload: vf.Bytes("frag1", 200)}
		sc.f[1] = wsFrame{fin: true, opcode: 0, n: 200, payload: vf.Bytes("frag2", 200)}
		sc.n = 2
		vf.Reach("message-total-over-max")
	case 1: // 10-byte message, 4-byte buffer
		sc.f[0] = wsFrame{fin: true, opcode: 2, n: 10, payload: vf.Bytes("msg", 10)}
		sc.n = 1
		bufLen = 4
		vf.Reach("caller-buffer-too-small")
	}
	sc.encode()
	t := &sonic.VerifTransport{In: sc.wire, Total: len(sc.wire), Concrete: true, MaxWSegs: 1, MaxSegs: 2, SplitLimit: 3}
	s := wsNewStream(t, max)
	vf.Unwind(400)
	b := make([]byte, bufLen)
	var err error
	if vf.Bool("async") {
		calls := 0
		s.AsyncNextMessage(b, func(e error, n int, mt MessageType) { calls++; err = e })
		vf.Assert("asyncnextmessage-once", calls == 1)
	} else {
		_, _, err = s.NextMessage(b)
	}
	vf.Assert("oversized-message-is-an-error", err != nil)
	vf.Assert("writes-refused-after-the-client-starts-closing", vf.Implies(s.State() != StateActive, s.Write([]byte("x"), TypeText) != nil))
	vf.Reach("end")
}

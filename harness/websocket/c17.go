//go:build verif

package websocket

import (
	"io"
	"syscall"

	"github.com/talostrading/sonic"
	"github.com/talostrading/sonic/internal/vf"
	"github.com/talostrading/sonic/internal/vsys/vkernel"
)

// C17 — a read and a write in flight together on one WebSocket stream, over
// the REAL AsyncAdapter, IO and epoll poller on the kernel model; the harness
// is the peer (it scripts frames into the socket) and the application.

type c17RawConn struct{ fd int }

func (c c17RawConn) Control(f func(fd uintptr)) error { f(uintptr(c.fd)); return nil }
func (c c17RawConn) Read(f func(fd uintptr) bool) error  { f(uintptr(c.fd)); return nil }
func (c c17RawConn) Write(f func(fd uintptr) bool) error { f(uintptr(c.fd)); return nil }

type c17Conn struct{ fd int }

func (c c17Conn) SyscallConn() (syscall.RawConn, error) { return c17RawConn{c.fd}, nil }

// what a net.Conn does on the descriptor (the adapter only calls it after epoll reported readiness)
func (c c17Conn) Read(p []byte) (int, error) {
	n, e := vkernel.Read(c.fd, p)
	if e != 0 {
		return 0, e
	}
	if n == 0 {
		return 0, io.EOF
	}
	return n, nil
}

func (c c17Conn) Write(p []byte) (int, error) {
	n, e := vkernel.Write(c.fd, p)
	if e != 0 {
		return 0, e
	}
	return n, nil
}

type c17Op struct {
	kind  int // 0 read frame, 1 app write, 2 flush, 3 close
	calls int
	err   error
}

type c17World struct {
	ioc    *sonic.IO
	s      *Stream
	fd     int
	ops    [6]c17Op
	nops   int
	readOut, writeOut bool // one outstanding read / application write at most
	rearm  int             // how many times a completed read starts the next one from its callback
	sent   []c16Sent       // frames the client must put on the wire, in order
	pings  int
	closed bool
	msgAPI   bool   // reads go through AsyncNextMessage instead of AsyncNextFrame
	frameAPI bool   // application writes go through AsyncWriteFrame instead of AsyncWrite
	mbuf     []byte // message buffer for AsyncNextMessage
}

func (w *c17World) newOp(kind int) int {
	id := w.nops
	w.nops++
	w.ops[id] = c17Op{kind: kind}
	return id
}

func (w *c17World) startRead() {
	if w.readOut || w.nops >= len(w.ops) {
		return
	}
	w.readOut = true
	id := w.newOp(0)
	done := func(err error) {
		w.ops[id].calls++
		w.ops[id].err = err
		vf.Assert("read-callback-at-most-once", w.ops[id].calls == 1)
		w.readOut = false
		if w.rearm > 0 && err == nil {
			w.rearm--
			w.startRead() // the usual read loop: the callback starts the next read
		}
	}
	if w.msgAPI {
		w.s.AsyncNextMessage(w.mbuf, func(err error, n int, mt MessageType) { done(err) })
		return
	}
	w.s.AsyncNextFrame(func(err error, f Frame) {
		if err == nil && f.Opcode() == OpcodePing {
			w.pingRead(f.Payload())
		}
		done(err)
	})
}

// pingRead: the client has just processed a Ping; while active it owes the peer one Pong with the same
// payload, queued at this point (ahead of whatever the application submits later).
func (w *c17World) pingRead(payload []byte) {
	if w.s.State() == StateActive {
		w.sent = append(w.sent, c16Sent{opcode: 10, payload: append([]byte(nil), payload...), n: len(payload)})
	}
}

func (w *c17World) startWrite() {
	if w.writeOut || w.nops >= len(w.ops) || w.closed {
		return
	}
	w.writeOut = true
	id := w.newOp(1)
	b := vf.Bytes("app", 1)
	if w.s.State() == StateActive {
		w.sent = append(w.sent, c16Sent{opcode: 2, payload: b, n: 1})
	}
	done := func(err error) {
		w.ops[id].calls++
		w.ops[id].err = err
		vf.Assert("write-callback-at-most-once", w.ops[id].calls == 1)
		w.writeOut = false
	}
	if w.frameAPI {
		f := w.s.AcquireFrame()
		f.SetFIN().SetBinary().SetPayload(b)
		w.s.AsyncWriteFrame(f, done)
		return
	}
	w.s.AsyncWrite(b, TypeBinary, done)
}

func (w *c17World) startClose() {
	if w.closed || w.nops >= len(w.ops) {
		return
	}
	w.closed = true
	id := w.newOp(3)
	if w.s.State() == StateActive {
		w.sent = append(w.sent, c16Sent{opcode: 8, payload: []byte{0x03, 0xe8}, n: 2})
	}
	w.s.AsyncClose(CloseNormal, "", func(err error) {
		w.ops[id].calls++
		vf.Assert("close-callback-at-most-once", w.ops[id].calls == 1)
	})
}

func (w *c17World) peerPing() {
	p := vf.Bytes("ping", 1)
	vkernel.PeerSends(w.fd, wsEncode(nil, &wsFrame{fin: true, opcode: 9, n: 1, payload: p}))
	w.pings++
}

func (w *c17World) peerData() {
	vkernel.PeerSends(w.fd, wsEncode(nil, &wsFrame{fin: true, opcode: 2, n: 1, payload: vf.Bytes("data", 1)}))
}

func c17New() *c17World { return c17NewCfg(vkernel.Config{Batch: 2, MaxWaits: 12}) }

func c17NewCfg(cfg vkernel.Config) *c17World {
	vkernel.Reset(cfg)
	w := &c17World{ioc: sonic.MustIO()}
	w.fd = vkernel.NewStream()
	vkernel.PeerSends(w.fd, nil) // the harness is the peer from the start: input is exactly what it scripts
	var adapter *sonic.AsyncAdapter
	sonic.NewAsyncAdapter(w.ioc, c17Conn{w.fd}, c17Conn{w.fd}, func(err error, a *sonic.AsyncAdapter) { adapter = a })
	vf.Assume(adapter != nil)
	w.s = wsNewStream(adapter, 1<<16)
	w.mbuf = make([]byte, 16)
	if vf.Bool("message-api") {
		w.msgAPI = true
		vf.Reach("opt:message-api")
		w.s.SetControlCallback(func(mt MessageType, payload []byte) {
			if Opcode(mt) == OpcodePing {
				w.pingRead(payload)
			}
		})
	}
	if vf.Bool("frame-api") {
		w.frameAPI = true
		vf.Reach("opt:frame-api")
	}
	return w
}

// finish: the transport is healthy and the loop is run; the peer keeps sending data so that a
// pending read can complete. Then every started operation must have completed exactly once and
// the peer must have received whole frames, each submitted frame once, in order.
func (w *c17World) finish() { w.finishWith(true) }

func (w *c17World) finishWith(data bool) {
	if data {
		w.peerData()
		w.peerData()
	}
	vkernel.K.Cfg.Eager = true // from here on every poll reports everything that is ready
	for p := 0; p < 8; p++ {
		w.ioc.PollOne()
	}
	for id := 0; id < w.nops; id++ {
		vf.Assert("every-started-operation-completes-exactly-once", w.ops[id].calls == 1)
	}
	out := vkernel.K.FDs[w.fd].Accepted
	off, i := 0, 0
	for off < len(out) {
		p := wsParseOut(out, off)
		vf.Assert("wire-frames-are-whole", p.ok)
		vf.Assert("wire-frame-expected", i < len(w.sent))
		vf.Assert("wire-frame-in-order", vf.All(p.masked, p.opcode == w.sent[i].opcode, p.n == w.sent[i].n))
		for j := 0; j < p.n; j++ {
			vf.Assert("wire-payload", out[off+p.hdr+j]^p.key[j&3] == w.sent[i].payload[j])
		}
		off += p.total
		i++
	}
	vf.Assert("every-submitted-frame-reached-the-peer", i == len(w.sent))
}

// A read is pending; an application write is started and completes; data arrives: both complete once.
func VerifC17_ReadPendingThenWrite() {
	w := c17New()
	vf.Unwind(64)
	w.startRead()
	if vf.Bool("poll-between") {
		w.ioc.PollOne()
	}
	w.startWrite()
	w.finish()
	vf.Reach("end")
}

// A Ping has been read (its Pong is queued); the next read (which flushes the Pong) and an
// application write are started in either order before, or around, the next poll cycle.
func VerifC17_PongFlushAndWrite() {
	w := c17New()
	vf.Unwind(64)
	w.peerPing()
	w.startRead()
	for p := 0; p < 3 && w.readOut; p++ {
		w.ioc.PollOne()
	}
	vf.Assume(!w.readOut) // the ping has been delivered; its pong is queued
	vf.Assert("pong-queued", w.s.Pending() == 1)
	order := vf.Choice("order", 3)
	switch order {
	case 0:
		w.startRead()
		w.startWrite()
		vf.Reach("read-then-write")
	case 1:
		w.startWrite()
		w.startRead()
		vf.Reach("write-then-read")
	case 2:
		// serialised by a poll cycle in between: the pong flush finishes before the write starts
		w.startRead()
		for p := 0; p < 3 && vkernel.K.FDs[w.fd].Accepted == nil; p++ {
			w.ioc.PollOne()
		}
		vf.Assume(len(vkernel.K.FDs[w.fd].Accepted) > 0)
		w.startWrite()
		vf.Reach("serialised")
	}
	w.finish()
	vf.Reach("end")
}

// An application write is started, then a read, before (or around) the next poll cycle: nothing
// overlaps here in a correct stream (the written frame has left the queue when the read's flush looks).
func VerifC17_WriteThenRead() {
	w := c17New()
	vf.Unwind(64)
	w.startWrite()
	if vf.Bool("poll-between") {
		w.ioc.PollOne()
	}
	w.startRead()
	w.finish()
	vf.Reach("end")
}

// The read loop (each completion starts the next read) runs while an application write is in
// flight: peer data and writability may be reported in the same poll cycle.
func VerifC17_ReadLoopWhileWriting() {
	w := c17New()
	vf.Unwind(64)
	w.rearm = 1
	w.startRead()
	w.startWrite()
	w.peerData()
	w.finish()
	vf.Reach("end")
}

// A read is pending; the application starts the closing handshake (AsyncClose); the peer answers
// with its Close frame: the close callback and the read callback each run exactly once, the wire
// holds exactly one Close frame (and what was submitted before it), nothing after it.
func VerifC17_ReadPendingThenClose() {
	w := c17New()
	vf.Unwind(64)
	w.startRead()
	if vf.Bool("write-first") {
		w.startWrite()
		if vf.Bool("poll-between") {
			w.ioc.PollOne()
		}
	}
	w.startClose()
	// the peer completes the closing handshake
	vkernel.PeerSends(w.fd, wsEncode(nil, &wsFrame{fin: true, opcode: 8, n: 2, payload: []byte{0x03, 0xe8}}))
	w.finishWith(false)
	vf.Assert("closing-handshake-complete", w.s.State() != StateActive)
	vf.Reach("end")
}

// quiesce: the peer sends data until no read is outstanding, the loop runs (eager polls do not branch),
// then the application flushes what the read path has queued (a Pong for a Ping processed by the last read).
func (w *c17World) quiesce() {
	vkernel.K.Cfg.Eager = true
	vkernel.K.Cfg.MaxWaits = 0
	for p := 0; p < 6; p++ {
		if w.readOut {
			w.peerData()
		}
		w.ioc.PollOne()
		w.ioc.PollOne()
	}
	flushed := 0
	w.s.AsyncFlush(func(err error) {
		flushed++
		vf.Assert("final-flush-ok", err == nil)
	})
	for p := 0; p < 4; p++ {
		w.ioc.PollOne()
	}
	vf.Assert("final-flush-completes-once", flushed == 1)
}

// Free histories: k steps, each one of {start a read (loop or single), start an application write,
// the peer sends a Ping, the peer sends data, one poll cycle with a symbolic batch}, then the loop is
// run to quiescence and the application flushes. Every started operation completes exactly once; the
// wire holds whole frames: one Pong per Ping the client processed and every application frame, each
// once, in the order they were queued.
func VerifC17_History() {
	w := c17New()
	vf.Unwind(64)
	K := vf.Bound("k", 3, 5)
	w.rearm = vf.Choice("rearm", 2)
	for s := 0; s < K; s++ {
		switch vf.Choice("action", 5) {
		case 0:
			w.startRead()
		case 1:
			w.startWrite()
		case 2:
			w.peerPing()
		case 3:
			w.peerData()
		case 4:
			w.ioc.PollOne()
		}
	}
	if w.readOut && w.writeOut {
		vf.Reach("opt:read-and-write-in-flight-together")
	}
	w.quiesce()
	w.finishWith(false)
	vf.Reach("end")
}

// Partial socket transfers: the kernel takes only a part of a frame per write (every split point of the
// 7-byte frames) and hands the scripted input over in pieces; a read and an application write are in
// flight together in either order. Same oracle: every operation completes exactly once, whole frames
// on the wire, each once, in order.
func VerifC17_PartialIO() {
	w := c17NewCfg(vkernel.Config{Batch: 2, MaxWaits: 12, AllowPartial: true, SplitPartial: true, MaxShort: vf.Bound("short-transfers", 2, 3)})
	vf.Unwind(64)
	if vf.Bool("write-first") {
		w.startWrite()
		if vf.Bool("poll-between") {
			w.ioc.PollOne()
		}
		w.startRead()
	} else {
		w.startRead()
		if vf.Bool("poll-between") {
			w.ioc.PollOne()
		}
		w.startWrite()
	}
	if vf.Bool("ping-too") {
		w.peerPing()
	}
	w.quiesce()
	w.finishWith(false)
	if vkernel.K.Shorts > 0 {
		vf.Reach("short-transfer")
	}
	if len(vkernel.K.FDs[w.fd].Accepted) > 0 {
		vf.Reach("wrote")
	}
	vf.Reach("end")
}

// Writes on a stream that is no longer active: after the application's own AsyncClose (and optionally the
// peer's Close) an AsyncWrite / AsyncWriteFrame is refused — its callback runs exactly once, with an
// error, and puts nothing on the wire — and the close callback is not disturbed.
func VerifC17_WriteWhenNotActive() {
	w := c17New()
	vf.Unwind(64)
	w.startClose()
	if vf.Bool("peer-closes-too") {
		vkernel.PeerSends(w.fd, wsEncode(nil, &wsFrame{fin: true, opcode: 8, n: 2, payload: []byte{0x03, 0xe8}}))
		w.startRead()
	}
	if vf.Bool("poll-between") {
		w.ioc.PollOne()
	}
	w.closed = false // let the ghost issue the write; the stream must refuse it
	id := w.nops
	w.startWrite()
	w.closed = true
	vf.Assert("late-write-was-issued", w.nops == id+1)
	vf.Assert("late-write-refused-at-once-exactly-once", vf.All(w.ops[id].calls == 1, w.ops[id].err != nil))
	w.finishWith(false)
	vf.Reach("end")
}

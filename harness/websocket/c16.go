//go:build verif

package websocket

import (
	"github.com/talostrading/sonic"
	"github.com/talostrading/sonic/internal/vf"
)

// C16 — every frame the client writes is well formed and correctly masked.

// Header encoding for EVERY payload length (symbolic), on a masked frame as AcquireFrame hands out.
func VerifC16_LengthEncoding() {
	n := vf.Int("n")
	vf.Assume(vf.All(0 <= n, n <= 1<<40))
	f := NewFrame()
	f.SetIsMasked()
	f.SetFIN()
	f.SetOpcode(Opcode(1 + vf.Choice("type", 2)))
	f.setPayloadLength(n)
	vf.Assert("mask-bit-kept", f.IsMasked())
	vf.Assert("declared-length", f.PayloadLength() == n)
	lf := int(f[1] & 0x7f)
	switch {
	case n <= 125:
		vf.Reach("len7")
		vf.Assert("shortest-7-bit", vf.All(lf == n, f.ExtendedPayloadLengthBytes() == 0, f.payloadOffset() == 6))
	case n <= 65535:
		vf.Reach("len16")
		vf.Assert("shortest-16-bit", vf.All(lf == 126, f.ExtendedPayloadLengthBytes() == 2, int(f[2])<<8|int(f[3]) == n, f.payloadOffset() == 8))
	default:
		vf.Reach("len64")
		vf.Assert("shortest-64-bit", vf.All(lf == 127, f.ExtendedPayloadLengthBytes() == 8, f.payloadOffset() == 14))
		v := 0
		for i := 0; i < 8; i++ {
			v = v<<8 | int(f[2+i])
		}
		vf.Assert("64-bit-value", v == n)
	}
	vf.Reach("end")
}

type c16Sent struct {
	opcode  byte
	payload []byte
	n       int
}

// wsCheckWire parses everything the transport received and compares it with what was submitted.
func wsCheckWire(out []byte, sent []c16Sent) {
	off := 0
	for i := range sent {
		p := wsParseOut(out, off)
		vf.Assert("wire-frame-complete", p.ok)
		vf.Assert("wire-frame-header", vf.All(p.masked, p.fin, p.rsv == 0, p.opcode == sent[i].opcode, p.n == sent[i].n, p.shortest))
		for j := 0; j < sent[i].n; j++ {
			vf.Assert("wire-payload-unmasks-to-callers-bytes", out[off+p.hdr+j]^p.key[j&3] == sent[i].payload[j])
		}
		off += p.total
	}
	vf.Assert("no-trailing-bytes-and-no-interleaving", off == len(out))
}

func VerifC16_Writes() {
	max := 400
	t := &sonic.VerifTransport{Concrete: true, MaxWSegs: vf.Bound("wsegs", 2, 3), SplitLimit: vf.Bound("split-limit", 2, 2)}
	s := wsNewStream(t, max)
	W := vf.Bound("writes", 2, 2)
	var sent []c16Sent
	vf.Unwind(600)
	for w := 0; w < W; w++ {
		t.WSegs = 0
		n := 0
		switch vf.Choice("len", 5) {
		case 1:
			n = 1
		case 2:
			n = 125
		case 3:
			n = 126
		case 4:
			n = 300
			vf.Assume(vf.Thorough() || w == 0) // the long one first, so that the pooled frame is reused by a shorter one
		}
		b := vf.Bytes("msg", n)
		mt := TypeText
		if vf.Bool("binary") {
			mt = TypeBinary
		}
		var err error
		calls := 1
		switch vf.Choice("api", 5) {
		case 0:
			err = s.Write(b, mt)
		case 1:
			calls = 0
			s.AsyncWrite(b, mt, func(e error) { calls++; err = e })
		case 2:
			f := s.AcquireFrame()
			f.SetFIN().SetOpcode(Opcode(mt)).SetPayload(b)
			err = s.WriteFrame(f)
		case 3:
			calls = 0
			f := s.AcquireFrame()
			f.SetFIN().SetOpcode(Opcode(mt)).SetPayload(b)
			s.AsyncWriteFrame(f, func(e error) { calls++; err = e })
		case 4:
			// a caller-built frame WITHOUT payload (e.g. an application-level ping)
			vf.Reach("opt:frame-without-payload")
			f := s.AcquireFrame()
			f.SetFIN().SetPing()
			err = s.WriteFrame(f)
			mt, n, b = TypePing, 0, nil
		}
		vf.Assert("write-callback-once", calls == 1)
		vf.Assert("write-ok", err == nil)
		sent = append(sent, c16Sent{opcode: byte(mt), payload: b, n: n})
		wsCheckWire(t.Out, sent)
		vf.Assert("nothing-left-queued", vf.All(s.Pending() == 0, s.dst.ReadLen() == 0, s.dst.WriteLen() == 0))
	}
	vf.Reach("end")
}

// A message above the configured maximum is refused without writing anything.
func VerifC16_OverMax() {
	max := vf.Int("max")
	vf.Assume(vf.All(0 <= max, max <= 1<<30))
	n := vf.Len("n")
	vf.Assume(vf.All(max < n, n <= 1<<31))
	t := &sonic.VerifTransport{}
	s := wsNewStream(t, max)
	b := vf.Bytes("msg", n)
	err := s.Write(b, TypeBinary)
	var aerr error
	calls := 0
	s.AsyncWrite(b, TypeBinary, func(e error) { calls++; aerr = e })
	vf.Assert("over-max-refused", vf.All(err != nil, aerr != nil, calls == 1))
	vf.Assert("over-max-writes-nothing", vf.All(len(t.Out) == 0, t.Writes == 0, s.Pending() == 0))
	vf.Reach("end")
}

// SetPayload on an ARBITRARY pooled frame: whatever length and capacity an
// earlier use left behind (releaseFrame only zeroes the first bytes), for
// every payload length. What the pool can hold: a frame is born with 14 bytes
// and SetPayload re-slices it to header+payload, so len >= 6 (masked, empty
// payload) and cap >= 14.
func VerifC16_SetPayloadOnPooledFrame() {
	capv := vf.Len("frame.cap")
	l := vf.Len("frame.len")
	vf.Assume(vf.All(14 <= capv, capv <= 1<<40, 6 <= l, l <= capv))
	raw := vf.Bytes("frame", capv)
	f := Frame(raw[:l])
	f.Reset() // what releaseFrame does
	n := vf.Len("n")
	vf.Assume(vf.All(0 <= n, n <= 1<<40))
	b := vf.Bytes("payload", n)
	(&f).SetIsMasked() // AcquireFrame in the client role
	(&f).SetFIN().SetOpcode(OpcodeBinary).SetPayload(b)
	vf.Assert("frame-is-exactly-header-plus-payload", vf.All(len(f) == f.payloadOffset()+n, f.PayloadLength() == n, f.IsMasked(), f.IsFIN()))
	if n > 0 {
		j := vf.Int("j")
		vf.Assume(vf.All(0 <= j, j < n))
		vf.Assert("payload-copied", f.Payload()[j] == b[j])
	}
	if n > 65535 && l < 10 {
		vf.Reach("opt:short-pooled-frame-long-payload")
	}
	vf.Reach("end")
}

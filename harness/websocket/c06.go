//go:build verif

package websocket

import (
	"github.com/talostrading/sonic"
	"github.com/talostrading/sonic/internal/vf"
)

// C06 — message delivery fidelity. Regime B sessions: conforming scripts of
// <= F frames forming <= 2 messages with any legal fragmentation and
// pings/pongs anywhere, payload lengths from the class representatives,
// every segmentation into <= S reads (split sizes 1..SplitLimit or "the
// rest"), all four read APIs. Regime A: one frame with a symbolic length.

const wsMaxF = 5

type wsScript struct {
	f      [wsMaxF]wsFrame
	n      int
	wire   []byte
	nmsg   int
	mtype  [3]byte
	mbytes [3][]byte
	mfrags [3]int
	nctrl  int
}

// wsConformingScript builds a conforming peer script.
func wsConformingScript(maxFrames int, lenName string) *wsScript {
	sc := &wsScript{}
	inMsg := false
	for i := 0; i < maxFrames; i++ {
		kind := vf.Choice("frame.kind", 5)
		if kind == 4 { // end of script
			break
		}
		fr := &sc.f[sc.n]
		switch kind {
		case 0: // first fragment of a message
			vf.Assume(!inMsg)
			vf.Assume(sc.nmsg < 2)
			fr.opcode = 1 + byte(vf.Choice("data.type", 2))
			fr.fin = vf.Bool("fin")
			sc.mtype[sc.nmsg] = fr.opcode
			inMsg = !fr.fin
		case 1: // continuation
			vf.Assume(inMsg)
			fr.opcode = 0
			fr.fin = vf.Bool("fin")
			inMsg = !fr.fin
		case 2:
			fr.opcode, fr.fin = 9, true
		case 3:
			fr.opcode, fr.fin = 10, true
		}
		if wsIsControl(fr.opcode) {
			if lenName == "small" {
				fr.n = vf.Choice("ctrl.len", 2)
			} else {
				fr.n = vf.Choice("ctrl.len", 3) // 0,1 ... and the largest legal one
				if fr.n == 2 {
					fr.n = 125
				}
			}
			sc.nctrl++
		} else if lenName == "small" {
			fr.n = 2 * vf.Choice("len.small", 2) // 0 or 2: lengths are not what this script is about
		} else {
			fr.n = wsPayloadLen(lenName, false) // the 16/64-bit length classes are decided by the symbolic-length harnesses
		}
		fr.payload = vf.Bytes("payload", fr.n)
		if !wsIsControl(fr.opcode) {
			sc.mbytes[sc.nmsg] = append(sc.mbytes[sc.nmsg], fr.payload...)
			sc.mfrags[sc.nmsg]++
			if fr.fin {
				sc.nmsg++
			}
		}
		sc.n++
	}
	vf.Assume(!inMsg)
	vf.Assume(sc.n > 0)
	return sc
}

func (sc *wsScript) encode() {
	sc.wire = nil
	for i := 0; i < sc.n; i++ {
		sc.wire = wsEncode(sc.wire, &sc.f[i])
	}
}

func wsCheckFrame(id string, f Frame, want *wsFrame) {
	vf.Assert(id+"-header", vf.All(f.IsFIN() == want.fin, byte(f.Opcode()) == want.opcode, f.PayloadLength() == want.n, len(f.Payload()) == want.n))
	p := f.Payload()
	for j := 0; j < want.n; j++ {
		vf.Assert(id+"-payload", p[j] == want.payload[j])
	}
}

func VerifC06_Session() {
	F := vf.Bound("frames", 3, 3)
	sc := wsConformingScript(F, "len")
	sc.encode()
	t := &sonic.VerifTransport{In: sc.wire, Total: len(sc.wire), Concrete: true, MaxWSegs: 1, MaxSegs: vf.Bound("segments", 2, 2), SplitLimit: vf.Bound("split-limit", 3, 3)}
	s := wsNewStream(t, 1<<20)
	ctrlSeen := 0
	s.SetControlCallback(func(mt MessageType, payload []byte) { ctrlSeen++ })
	vf.Unwind(200)
	switch vf.Choice("api", 4) {
	case 0: // frame level, blocking
		for i := 0; i < sc.n; i++ {
			f, err := s.NextFrame()
			vf.Assert("nextframe-ok", err == nil)
			wsCheckFrame("nextframe", f, &sc.f[i])
		}
		vf.Reach("frames-blocking")
	case 1: // frame level, asynchronous (the transport completes inline)
		for i := 0; i < sc.n; i++ {
			calls := 0
			var got Frame
			var gerr error
			s.AsyncNextFrame(func(err error, f Frame) { calls++; got, gerr = f, err })
			vf.Assert("asyncnextframe-once", calls == 1)
			vf.Assert("asyncnextframe-ok", gerr == nil)
			wsCheckFrame("asyncnextframe", got, &sc.f[i])
		}
		vf.Reach("frames-async")
	case 2: // message level, blocking
		for m := 0; m < sc.nmsg; m++ {
			b := make([]byte, 600)
			if vf.Thorough() {
				b = make([]byte, 140000)
			}
			mt, n, err := s.NextMessage(b)
			vf.Assert("nextmessage-ok", err == nil)
			vf.Assert("nextmessage-type-and-length", vf.All(byte(mt) == sc.mtype[m], n == len(sc.mbytes[m])))
			for j := 0; j < len(sc.mbytes[m]); j++ {
				vf.Assert("nextmessage-payload", b[j] == sc.mbytes[m][j])
			}
			if sc.mfrags[m] > 1 {
				vf.Reach("opt:fragmented-message")
			}
		}
		vf.Reach("messages-blocking")
	case 3: // message level, asynchronous
		for m := 0; m < sc.nmsg; m++ {
			b := make([]byte, 600)
			if vf.Thorough() {
				b = make([]byte, 140000)
			}
			calls := 0
			var gerr error
			var gn int
			var gmt MessageType
			s.AsyncNextMessage(b, func(err error, n int, mt MessageType) { calls++; gerr, gn, gmt = err, n, mt })
			vf.Assert("asyncnextmessage-once", calls == 1)
			vf.Assert("asyncnextmessage-ok", gerr == nil)
			vf.Assert("asyncnextmessage-type-and-length", vf.All(byte(gmt) == sc.mtype[m], gn == len(sc.mbytes[m])))
			for j := 0; j < len(sc.mbytes[m]); j++ {
				vf.Assert("asyncnextmessage-payload", b[j] == sc.mbytes[m][j])
			}
		}
		vf.Reach("messages-async")
	}
	if t.Segs >= 2 {
		vf.Reach("opt:segmented")
	}
	vf.Reach("end")
}

// Regime A: one data frame whose payload length is fully symbolic (all three
// length encodings), delivered in <= S segments of symbolic sizes.
func VerifC06_OneFrameSymbolic() {
	max := vf.Int("max")
	vf.Assume(vf.All(0 <= max, max <= 1<<31))
	n := vf.Len("n")
	vf.Assume(vf.All(0 <= n, n <= max))
	fr := &wsFrame{fin: vf.Bool("fin"), opcode: 1 + byte(vf.Choice("type", 2)), n: n}
	fr.payload = vf.Bytes("payload", n)
	// encode by hand with symbolic n: the three length classes
	var wire []byte
	b0 := fr.opcode
	if fr.fin {
		b0 |= 0x80
	}
	switch {
	case n <= 125:
		wire = append(wire, b0, byte(n))
		vf.Reach("len7")
	case n <= 65535:
		wire = append(wire, b0, 126, byte(n>>8), byte(n))
		vf.Reach("len16")
	default:
		wire = append(wire, b0, 127, byte(n>>56), byte(n>>48), byte(n>>40), byte(n>>32), byte(n>>24), byte(n>>16), byte(n>>8), byte(n))
		vf.Reach("len64")
	}
	wire = append(wire, fr.payload...)
	t := &sonic.VerifTransport{In: wire, Total: len(wire), MaxSegs: vf.Bound("segments", 2, 3)}
	s := wsNewStream(t, max)
	vf.Unwind(12)
	f, err := s.NextFrame()
	vf.Assert("nextframe-ok", err == nil)
	vf.Assert("frame-header", vf.All(f.IsFIN() == fr.fin, byte(f.Opcode()) == fr.opcode, f.PayloadLength() == n, len(f.Payload()) == n))
	if n > 0 {
		j := vf.Int("j")
		vf.Assume(vf.All(0 <= j, j < n))
		vf.Assert("frame-payload", f.Payload()[j] == fr.payload[j])
	}
	vf.Reach("end")
}

// Regime A for the message-level APIs: one message of two fragments of lengths n1 in {0,3,125} and
// symbolic n2 (7-bit length class), an optional Ping between them, a symbolic configured maximum with
// n1+n2 <= max — which includes a message of EXACTLY the maximum size — and a caller buffer of
// symbolic length >= n1+n2, delivered in <= S segments of symbolic sizes. Both message APIs must
// deliver it: no error, the type of the first fragment, n == n1+n2, payload identical at an
// arbitrary index, stream still active.
func VerifC06_MessageSymbolic() {
	// n1 is case-split (so that the second header sits at a concrete offset), n2 is symbolic
	n1 := [3]int{3, 0, 125}[vf.Choice("n1", vf.Bound("msg.n1-cases", 1, 3))]
	n2 := vf.Len("n2")
	vf.Assume(vf.All(0 <= n2, n2 <= 125))
	max := vf.Int("max")
	// max >= 1: the optional Ping carries one payload byte, and the frame-size limit applies to it too
	vf.Assume(vf.All(n1+n2 <= max, 1 <= max, max <= 1<<31))
	bufLen := 256
	if vf.Thorough() {
		bufLen = vf.Len("buflen")
		vf.Assume(vf.All(n1+n2 <= bufLen, bufLen <= 4096))
	}
	typ := 1 + byte(vf.Choice("type", 2))
	p1, p2 := vf.Bytes("frag1", n1), vf.Bytes("frag2", n2)
	var wire []byte
	wire = append(wire, typ, byte(n1))
	wire = append(wire, p1...)
	if vf.Bool("ping-between") {
		wire = append(wire, 0x89, 1, vf.Uint8("ping"))
		vf.Reach("opt:ping-between-fragments")
	}
	wire = append(wire, 0x80, byte(n2))
	wire = append(wire, p2...)
	t := &sonic.VerifTransport{In: wire, Total: len(wire), MaxSegs: vf.Bound("msg.segments", 2, 2), MaxWSegs: 1}
	s := wsNewStream(t, max)
	vf.Unwind(200)
	b := make([]byte, bufLen)
	var err error
	var n int
	var mt MessageType
	if vf.Bool("async") {
		calls := 0
		s.AsyncNextMessage(b, func(e error, k int, m MessageType) { calls++; err, n, mt = e, k, m })
		vf.Assert("asyncnextmessage-once", calls == 1)
		vf.Reach("async")
	} else {
		mt, n, err = s.NextMessage(b)
	}
	if n1+n2 == max {
		vf.Reach("exactly-at-the-limit")
	}
	vf.Assert("message-within-the-limit-is-delivered", vf.All(err == nil, n == n1+n2, byte(mt) == typ, s.State() == StateActive))
	if n1 > 0 {
		j := vf.Int("j1")
		vf.Assume(vf.All(0 <= j, j < n1))
		vf.Assert("message-payload-first-fragment", b[j] == p1[j])
	}
	if n2 > 0 {
		j := vf.Int("j2")
		vf.Assume(vf.All(0 <= j, j < n2))
		vf.Assert("message-payload-second-fragment", b[n1+j] == p2[j])
	}
	vf.Reach("end")
}

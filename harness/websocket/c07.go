//go:build verif

package websocket

import (
	"github.com/talostrading/sonic"
	"github.com/talostrading/sonic/internal/vf"
	"github.com/talostrading/sonic/sonicerrors"
)

// C07 — FrameCodec.Decode/Encode. One decode step from an ARBITRARY source
// buffer and decoder carry-over state, checked against an independent
// RFC 6455 header parser (c07Ref) written here, not against frame.go.

type c07Parsed struct {
	need     bool   // not enough bytes to know more
	over     bool   // declared length above max (or >= 2^63)
	hdr      int    // header length incl. extended length and mask
	declared uint64 // declared payload length
	total    int    // hdr + declared (valid if !need && !over)
}

// c07Ref parses the frame at A[0:n) without touching frame.go.
func c07Ref(A []byte, n int, max int) (p c07Parsed) {
	if n < 2 {
		p.need = true
		return
	}
	lf := A[1] & 0x7f
	ext := 0
	if lf == 126 {
		ext = 2
	} else if lf == 127 {
		ext = 8
	}
	if n < 2+ext {
		p.need = true
		return
	}
	switch ext {
	case 0:
		p.declared = uint64(lf)
	case 2:
		p.declared = uint64(A[2])<<8 | uint64(A[3])
	case 8:
		p.declared = uint64(A[2])<<56 | uint64(A[3])<<48 | uint64(A[4])<<40 | uint64(A[5])<<32 |
			uint64(A[6])<<24 | uint64(A[7])<<16 | uint64(A[8])<<8 | uint64(A[9])
	}
	if p.declared > uint64(max) {
		p.over = true
		return
	}
	p.hdr = 2 + ext
	if A[1]&0x80 != 0 {
		p.hdr += 4
	}
	if n < p.hdr {
		p.need = true
		return
	}
	p.total = p.hdr + int(p.declared)
	if n < p.total {
		p.need = true
	}
	return
}

const c07MEM = vf.MEM

// c07Arbitrary builds an arbitrary source buffer and a codec over it.
func c07Arbitrary() (src *sonic.ByteBuffer, raw []byte, c *FrameCodec, si, ri, wi, max int) {
	capv := vf.Len("cap")
	wi = vf.Len("wi")
	ri = vf.Int("ri")
	si = vf.Int("si")
	vf.Assume(vf.All(0 <= si, si <= ri, ri <= wi, wi <= capv, capv <= c07MEM))
	raw = vf.Bytes("data", capv)
	src = sonic.VerifMakeByteBuffer(si, ri, wi, raw)
	max = vf.Int("max")
	vf.Assume(vf.All(0 <= max, max <= c07MEM))
	c = &FrameCodec{src: src, dst: sonic.NewByteBuffer(), maxMessageSize: max}
	return
}

// Decode = resetDecode ; parse. First half: the lazy consume of the frame
// handed out by the previous call, from an arbitrary carry-over state.
func VerifC07_ResetDecode() {
	src, raw, c, si, ri, wi, _ := c07Arbitrary()
	L := vf.Int("L")
	vf.Assume(vf.All(2 <= L, L <= ri-si))
	c.decodeReset = true
	c.decodeFrame = Frame(src.Data()[:L])
	P := vf.Snapshot(raw)
	c.resetDecode()
	nsi, nri, nwi, _ := sonic.VerifBufState(src)
	vf.Assert("buffer-inv", sonic.VerifBufInv(src))
	vf.Assert("consumed-exactly-the-frame", vf.All(nsi == si, nri == ri-L, nwi == wi-L, !c.decodeReset, c.decodeFrame == nil))
	k := vf.Int("k")
	vf.Assume(vf.All(0 <= k, k < nwi-nsi))
	vf.Assert("stream-continues-after-frame", sonic.VerifBufRaw(src)[nsi+k] == P[si+L+k])
	j := vf.Int("j")
	vf.Assume(vf.All(0 <= j, j < si))
	vf.Assert("saved-untouched", sonic.VerifBufRaw(src)[j] == P[j])
	// idempotent when nothing is pending
	c.resetDecode()
	a, b2, c2, _ := sonic.VerifBufState(src)
	vf.Assert("reset-idempotent", vf.All(a == nsi, b2 == nri, c2 == nwi))
	vf.Reach("end")
}

// Second half: parse from an arbitrary buffer with no frame pending (which is
// every state resetDecode can leave behind).
func VerifC07_DecodeStep() {
	src, raw, c, si, _, wi, max := c07Arbitrary()
	P := vf.Snapshot(raw)
	n := wi - si // bytes available to the decoder (read + write areas)
	A := P[si:]  // the stream as the peer sent it
	want := c07Ref(A, n, max)

	f, err := c.Decode(src)

	nsi, nri, nwi, _ := sonic.VerifBufState(src)
	vf.Assert("buffer-inv", sonic.VerifBufInv(src))
	vf.Assert("saved-untouched", nsi == si)
	vf.Assert("stream-length-kept", nwi-nsi == n)
	// no byte of the stream is lost or altered, whatever the outcome
	k := vf.Int("k")
	vf.Assume(vf.All(0 <= k, k < n))
	vf.Assert("stream-bytes-kept", sonic.VerifBufRaw(src)[nsi+k] == A[k])

	switch {
	case want.need:
		vf.Reach("need-more")
		vf.Assert("need-more", vf.All(f == nil, err == sonicerrors.ErrNeedMore, !c.decodeReset))
		if want.total > 0 {
			// the size of the frame is known: the buffer must be able to hold all of it, otherwise the
			// transport read that follows is zero-length for ever and the frame is never delivered
			_, _, _, ncap := sonic.VerifBufState(src)
			vf.Reach("need-payload")
			vf.Assert("room-for-the-whole-frame", ncap-nsi >= want.total)
		}
	case want.over:
		vf.Reach("over-max")
		vf.Assert("over-max-is-error", vf.All(f == nil, err != nil, err != sonicerrors.ErrNeedMore, !c.decodeReset))
	default:
		vf.Reach("frame")
		vf.Assert("frame-returned", vf.All(err == nil, f != nil))
		vf.Assert("frame-length", vf.All(len(f) == want.total, uint64(f.PayloadLength()) == want.declared, f.PayloadLength() <= max, f.PayloadLength() >= 0))
		j := vf.Int("j")
		vf.Assume(vf.All(0 <= j, j < want.total))
		vf.Assert("frame-bytes", f[j] == A[j])
		// the decoder will consume exactly this frame next time: stream stays in sync
		vf.Assert("in-sync", vf.All(c.decodeReset, len(c.decodeFrame) == want.total, nri-nsi >= want.total))
		vf.Assert("frame-is-prefix-of-read-area", vf.All(&f[0] == &src.Data()[0], &c.decodeFrame[0] == &f[0]))
		if want.declared >= 65536 {
			vf.Reach("len64")
		} else if want.declared >= 126 {
			vf.Reach("len16")
		}
	}
	vf.Reach("end")
}

// Round trip: Encode then Decode returns the identical frame, for every
// header bit combination and length class.
func VerifC07_RoundTrip() {
	total := vf.Len("total")
	vf.Assume(vf.All(2 <= total, total <= c07MEM))
	fb := vf.Bytes("frame", total)
	max := vf.Int("max")
	vf.Assume(vf.All(0 <= max, max <= c07MEM))
	// well-formed: the shortest-or-not length field matches the actual size
	p := c07Ref(fb, total, max)
	vf.Assume(vf.All(!p.need, !p.over, p.total == total))
	f := Frame(fb)
	dst := sonic.NewByteBuffer()
	c := NewFrameCodec(dst, dst, max)
	err := c.Encode(f, dst)
	vf.Assert("encode-ok", err == nil)
	vf.Assert("encode-committed", vf.All(dst.ReadLen() == total, dst.WriteLen() == 0))
	g, err := c.Decode(dst)
	vf.Assert("roundtrip-decodes", vf.All(err == nil, len(g) == total))
	j := vf.Int("j")
	vf.Assume(vf.All(0 <= j, j < total))
	vf.Assert("roundtrip-identical", g[j] == fb[j])
	if p.declared >= 65536 {
		vf.Reach("len64")
	} else if p.declared >= 126 {
		vf.Reach("len16")
	} else {
		vf.Reach("len7")
	}
	vf.Reach("end")
}

//go:build verif

package frame

import (
	"github.com/talostrading/sonic"
	"github.com/talostrading/sonic/internal/vf"
	"github.com/talostrading/sonic/sonicerrors"
)

// C19 — length-prefixed frame codec and CodecConn[[]byte,[]byte].

const c19MEM = vf.MEM

func c19Arbitrary() (src *sonic.ByteBuffer, raw []byte, c *Codec, si, ri, wi, capv int) {
	capv = vf.Len("cap")
	wi = vf.Len("wi")
	ri = vf.Int("ri")
	si = vf.Int("si")
	vf.Assume(vf.All(0 <= si, si <= ri, ri <= wi, wi <= capv, capv <= c19MEM))
	raw = vf.Bytes("data", capv)
	src = sonic.VerifMakeByteBuffer(si, ri, wi, raw)
	c = NewCodec(src)
	return
}

// Decode = resetDecode ; parse. First half, from an arbitrary carry-over.
func VerifC19_ResetDecode() {
	src, raw, c, si, ri, wi, _ := c19Arbitrary()
	L := vf.Int("L")
	vf.Assume(vf.All(0 <= L, L <= ri-si))
	c.decodeReset = true
	c.decodeBytes = L
	P := vf.Snapshot(raw)
	c.resetDecode()
	nsi, nri, nwi, _ := sonic.VerifBufState(src)
	vf.Assert("buffer-inv", sonic.VerifBufInv(src))
	vf.Assert("consumed-exactly-the-item", vf.All(nsi == si, nri == ri-L, nwi == wi-L, !c.decodeReset, c.decodeBytes == 0))
	k := vf.Int("k")
	vf.Assume(vf.All(0 <= k, k < nwi-nsi))
	vf.Assert("stream-continues-after-item", sonic.VerifBufRaw(src)[nsi+k] == P[si+L+k])
	vf.Reach("end")
}

// Second half: parse from an arbitrary buffer with nothing pending.
func VerifC19_DecodeStep() {
	src, raw, c, si, _, wi, capv := c19Arbitrary()
	P := vf.Snapshot(raw)
	n := wi - si
	A := P[si:]
	got, err := c.Decode(src)
	nsi, nri, nwi, ncap := sonic.VerifBufState(src)
	vf.Assert("buffer-inv", sonic.VerifBufInv(src))
	vf.Assert("saved-untouched", nsi == si)
	if n < HeaderLen {
		vf.Reach("short-prefix")
		vf.Assert("need-prefix", vf.All(got == nil, err == sonicerrors.ErrNeedMore, nwi-nsi == n, !c.decodeReset))
		return
	}
	declared := uint64(A[0])<<24 | uint64(A[1])<<16 | uint64(A[2])<<8 | uint64(A[3])
	switch {
	case declared > MaxPayloadLength:
		vf.Reach("over-limit")
		vf.Assert("over-limit-is-error", vf.All(got == nil, err != nil, err != sonicerrors.ErrNeedMore, !c.decodeReset))
		vf.Assert("over-limit-no-buffering", vf.All(ncap == capv, nwi-nsi == n))
	case uint64(n) < HeaderLen+declared:
		vf.Reach("need-payload")
		vf.Assert("need-payload", vf.All(got == nil, err == sonicerrors.ErrNeedMore, nwi-nsi == n, !c.decodeReset))
		k := vf.Int("k")
		vf.Assume(vf.All(0 <= k, k < n))
		vf.Assert("stream-bytes-kept", sonic.VerifBufRaw(src)[nsi+k] == A[k])
		vf.Assert("room-for-item", uint64(ncap-nsi) >= HeaderLen+declared)
	default:
		vf.Reach("item")
		d := int(declared)
		vf.Assert("item-returned", vf.All(err == nil, len(got) == d))
		vf.Assert("prefix-consumed", vf.All(nwi-nsi == n-HeaderLen, nri-nsi >= d, c.decodeReset, c.decodeBytes == d))
		if d > 0 {
			j := vf.Int("j")
			vf.Assume(vf.All(0 <= j, j < d))
			vf.Assert("item-bytes", got[j] == A[HeaderLen+j])
			vf.Assert("item-is-prefix-of-read-area", &got[0] == &src.Data()[0])
			vf.Reach("non-empty-item")
		}
		// what follows the item is still in the stream
		k := vf.Int("k")
		vf.Assume(vf.All(d <= k, k < n-HeaderLen))
		vf.Assert("rest-of-stream-kept", sonic.VerifBufRaw(src)[nsi+k] == A[HeaderLen+k])
	}
	vf.Reach("end")
}

// Encode into an arbitrary destination buffer.
func VerifC19_Encode() {
	dst, raw, c, si, ri, wi, capv := c19Arbitrary()
	_ = capv
	m := vf.Len("m")
	vf.Assume(vf.All(0 <= m, m <= 2*MaxPayloadLength))
	item := vf.Bytes("item", m)
	P := vf.Snapshot(raw)
	err := c.Encode(item, dst)
	nsi, nri, nwi, _ := sonic.VerifBufState(dst)
	vf.Assert("buffer-inv", sonic.VerifBufInv(dst))
	if m > MaxPayloadLength {
		vf.Reach("over-limit")
		vf.Assert("encode-over-limit", vf.All(err != nil, nsi == si, nri == ri, nwi == wi))
		return
	}
	vf.Assert("encode-ok", err == nil)
	vf.Assert("encode-appends", vf.All(nsi == si, nri == ri, nwi == wi+HeaderLen+m))
	R := sonic.VerifBufRaw(dst)
	vf.Assert("encode-prefix", vf.All(R[wi] == byte(m>>24), R[wi+1] == byte(m>>16), R[wi+2] == byte(m>>8), R[wi+3] == byte(m)))
	if m > 0 {
		j := vf.Int("j")
		vf.Assume(vf.All(0 <= j, j < m))
		vf.Assert("encode-payload", R[wi+HeaderLen+j] == item[j])
		vf.Reach("non-empty")
	}
	k := vf.Int("k")
	vf.Assume(vf.All(0 <= k, k < wi))
	vf.Assert("encode-keeps-old", R[k] == P[k])
	vf.Reach("end")
}

// CodecConn write: after a write reported successful the transport has
// received exactly prefix ++ payload and nothing is left in the buffer.
func VerifC19_WriteNext() {
	m := vf.Len("m")
	vf.Assume(vf.All(0 <= m, m <= MaxPayloadLength))
	item := vf.Bytes("item", m)
	src, dst := sonic.NewByteBuffer(), sonic.NewByteBuffer()
	t := &sonic.VerifTransport{MaxWSegs: vf.Bound("wsegs", 2, 3)}
	conn, _ := sonic.NewCodecConn[[]byte, []byte](t, NewCodec(src), src, dst)
	var n int
	var err error
	if vf.Bool("async") {
		calls := 0
		conn.AsyncWriteNext(item, func(e error, k int) { calls++; err, n = e, k })
		vf.Assert("async-callback-once", calls == 1)
		vf.Reach("async")
	} else {
		n, err = conn.WriteNext(item)
	}
	vf.Assert("write-ok", err == nil)
	vf.Assert("write-sent-whole-item", vf.All(n == HeaderLen+m, len(t.Out) == HeaderLen+m))
	vf.Assert("write-nothing-left-behind", vf.All(dst.ReadLen() == 0, dst.WriteLen() == 0))
	vf.Assert("wire-prefix", vf.All(t.Out[0] == byte(m>>24), t.Out[1] == byte(m>>16), t.Out[2] == byte(m>>8), t.Out[3] == byte(m)))
	if m > 0 {
		j := vf.Int("j")
		vf.Assume(vf.All(0 <= j, j < m))
		vf.Assert("wire-payload", t.Out[HeaderLen+j] == item[j])
	}
	vf.Reach("end")
}

// CodecConn read of one item delivered in <= S segments of arbitrary sizes
// (split points anywhere, also inside the prefix).
func VerifC19_ReadNext() {
	m := vf.Len("m")
	vf.Assume(vf.All(0 <= m, m <= MaxPayloadLength))
	extra := vf.Len("extra") // bytes of the following item already on the wire
	vf.Assume(vf.All(0 <= extra, extra <= 8))
	wire := vf.Bytes("wire", HeaderLen+m+extra)
	vf.Assume(vf.All(wire[0] == byte(m>>24), wire[1] == byte(m>>16), wire[2] == byte(m>>8), wire[3] == byte(m)))
	src, dst := sonic.NewByteBuffer(), sonic.NewByteBuffer()
	t := &sonic.VerifTransport{In: wire, Total: len(wire), MaxSegs: vf.Bound("segs", 3, 4)}
	conn, _ := sonic.NewCodecConn[[]byte, []byte](t, NewCodec(src), src, dst)
	vf.Unwind(8)
	var got []byte
	var err error
	if vf.Bool("async") {
		calls := 0
		conn.AsyncReadNext(func(e error, b []byte) { calls++; err, got = e, b })
		vf.Assert("async-callback-once", calls == 1)
		vf.Reach("async")
	} else {
		got, err = conn.ReadNext()
	}
	vf.Assert("read-ok", vf.All(err == nil, len(got) == m))
	if m > 0 {
		j := vf.Int("j")
		vf.Assume(vf.All(0 <= j, j < m))
		vf.Assert("read-bytes", got[j] == wire[HeaderLen+j])
		vf.Reach("non-empty")
	}
	if t.Segs >= 2 {
		vf.Reach("segmented")
	}
	vf.Reach("end")
}

// Two small items written then read back through the same codec pair
// (regime B: concrete small sizes, every segmentation of the byte stream).
func VerifC19_TwoItems() {
	maxLen := vf.Bound("twoitems.maxlen", 2, 3)
	m1, m2 := vf.Len("m1"), vf.Len("m2")
	vf.Assume(vf.All(0 <= m1, m1 <= maxLen, 0 <= m2, m2 <= maxLen))
	m1, m2 = vf.Concretize(m1, 4), vf.Concretize(m2, 4)
	a, b := vf.Bytes("a", m1), vf.Bytes("b", m2)
	wsrc, wdst := sonic.NewByteBuffer(), sonic.NewByteBuffer()
	wt := &sonic.VerifTransport{MaxWSegs: 1, Concrete: true}
	w, _ := sonic.NewCodecConn[[]byte, []byte](wt, NewCodec(wsrc), wsrc, wdst)
	_, err := w.WriteNext(a)
	vf.Assert("w1", vf.All(err == nil, len(wt.Out) == HeaderLen+m1))
	wt.WSegs = 0
	_, err = w.WriteNext(b)
	vf.Assert("w2", vf.All(err == nil, len(wt.Out) == 2*HeaderLen+m1+m2))
	rsrc, rdst := sonic.NewByteBuffer(), sonic.NewByteBuffer()
	rt := &sonic.VerifTransport{In: wt.Out, Total: len(wt.Out), MaxSegs: vf.Bound("twoitems.segs", 2, 3), Concrete: true}
	r, _ := sonic.NewCodecConn[[]byte, []byte](rt, NewCodec(rsrc), rsrc, rdst)
	vf.Unwind(8)
	g1, err := r.ReadNext()
	vf.Assert("r1", vf.All(err == nil, len(g1) == m1))
	for i := 0; i < m1; i++ {
		vf.Assert("r1-bytes", g1[i] == a[i])
	}
	g2, err := r.ReadNext()
	vf.Assert("r2", vf.All(err == nil, len(g2) == m2))
	for i := 0; i < m2; i++ {
		vf.Assert("r2-bytes", g2[i] == b[i])
	}
	vf.Reach("end")
}

// Would-block in the middle of an item, blocking API on a non-blocking stream. Write direction: the
// transport accepts some bytes of item 1 (none, or one partial write) and then reports would-block;
// WriteNext reports it, and after the next successful WriteNext the wire holds item 1 and item 2
// exactly once each, in order, and nothing stays queued. Read direction: a read reports would-block
// before or inside item 1 (prefix included); ReadNext reports it, and the next ReadNext returns the
// item intact.
func VerifC19_WouldBlock() {
	maxLen := vf.Bound("wouldblock.maxlen", 64, MaxPayloadLength)
	m1, m2 := vf.Len("m1"), vf.Len("m2")
	vf.Assume(vf.All(0 <= m1, m1 <= maxLen, 0 <= m2, m2 <= maxLen))
	if vf.Bool("read") {
		wire := vf.Bytes("wire", HeaderLen+m1)
		vf.Assume(vf.All(wire[0] == byte(m1>>24), wire[1] == byte(m1>>16), wire[2] == byte(m1>>8), wire[3] == byte(m1)))
		src, dst := sonic.NewByteBuffer(), sonic.NewByteBuffer()
		t := &sonic.VerifTransport{In: wire, Total: len(wire), MaxSegs: 3, RBlockAt: 1 + vf.Choice("rblock", 3)}
		conn, _ := sonic.NewCodecConn[[]byte, []byte](t, NewCodec(src), src, dst)
		vf.Unwind(8)
		got, err := conn.ReadNext()
		if err == nil {
			// the item was complete before the blocked read was reached
			vf.Reach("opt:read-complete-before-block")
		} else {
			vf.Reach("read-blocked")
			vf.Assert("read-reports-would-block", vf.All(err == sonicerrors.ErrWouldBlock, len(got) == 0))
			got, err = conn.ReadNext()
		}
		vf.Assert("read-resumes-with-the-whole-item", vf.All(err == nil, len(got) == m1))
		if m1 > 0 {
			j := vf.Int("j")
			vf.Assume(vf.All(0 <= j, j < m1))
			vf.Assert("read-bytes", got[j] == wire[HeaderLen+j])
		}
		vf.Reach("end")
		return
	}
	a, b := vf.Bytes("a", m1), vf.Bytes("b", m2)
	src, dst := sonic.NewByteBuffer(), sonic.NewByteBuffer()
	t := &sonic.VerifTransport{MaxWSegs: 3, WBlockAt: 1 + vf.Choice("wblock", 2)}
	conn, _ := sonic.NewCodecConn[[]byte, []byte](t, NewCodec(src), src, dst)
	vf.Unwind(8)
	n, err := conn.WriteNext(a)
	if err == nil {
		vf.Reach("opt:write-complete-before-block")
		vf.Assert("write-sent-whole-item", vf.All(n == HeaderLen+m1, len(t.Out) == HeaderLen+m1))
	} else {
		vf.Reach("write-blocked")
		vf.Assert("write-reports-would-block-and-count", vf.All(err == sonicerrors.ErrWouldBlock, n == len(t.Out), n < HeaderLen+m1))
		if n > 0 {
			vf.Reach("blocked-mid-item")
		}
	}
	t.WBlockAt, t.WSegs = 0, 0
	_, err = conn.WriteNext(b)
	vf.Assert("second-write-ok", err == nil)
	vf.Assert("wire-holds-both-items-once", len(t.Out) == 2*HeaderLen+m1+m2)
	vf.Assert("nothing-left-behind", vf.All(dst.ReadLen() == 0, dst.WriteLen() == 0))
	o := HeaderLen + m1
	vf.Assert("wire-prefix-1", vf.All(t.Out[0] == byte(m1>>24), t.Out[1] == byte(m1>>16), t.Out[2] == byte(m1>>8), t.Out[3] == byte(m1)))
	vf.Assert("wire-prefix-2", vf.All(t.Out[o] == byte(m2>>24), t.Out[o+1] == byte(m2>>16), t.Out[o+2] == byte(m2>>8), t.Out[o+3] == byte(m2)))
	if m1 > 0 {
		j := vf.Int("j")
		vf.Assume(vf.All(0 <= j, j < m1))
		vf.Assert("wire-payload-1", t.Out[HeaderLen+j] == a[j])
	}
	if m2 > 0 {
		j := vf.Int("j2")
		vf.Assume(vf.All(0 <= j, j < m2))
		vf.Assert("wire-payload-2", t.Out[o+HeaderLen+j] == b[j])
	}
	vf.Reach("end")
}

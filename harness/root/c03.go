//go:build verif

package sonic

import (
	"time"

	"github.com/talostrading/sonic/internal/vf"
	"github.com/talostrading/sonic/internal/vsys/vkernel"
	"github.com/talostrading/sonic/sonicerrors"
)

// C03 — Pending() accounting and RunPending termination, with a shadow
// ledger: in-flight = deferred reads/writes + armed timers + posted handlers.

type c03World struct {
	*world
	timer      *Timer
	timerArmed bool
	timerFired int
	posted     int
	postRan    int
}

func (w *c03World) ledger() int64 {
	n := int64(0)
	for id := 0; id < w.nops; id++ {
		op := &w.ops[id]
		if op.calls == 0 && !w.objs[op.obj].closed {
			n++
		}
	}
	if w.timerArmed {
		n++
	}
	n += int64(w.posted - w.postRan)
	return n
}

func (w *c03World) check(where string) {
	w.settle()
	vf.Assert("pending-equals-operations-in-flight", w.ioc.Pending() == w.ledger())
	vf.Assert("posted-equals-posts-not-run", w.ioc.Posted() == w.posted-w.postRan)
}

func (w *c03World) step() {
	switch vf.Choice("action", 9) {
	case 0:
		w.start(0, vf.Choice("dir", 2), vf.Bool("all"))
	case 1:
		w.start(1, vf.Choice("dir", 2), false)
	case 2:
		w.cancel(0)
	case 3:
		w.close(0)
	case 4:
		w.close(1)
	case 5:
		n0 := 0
		for id := 0; id < w.nops; id++ {
			n0 += w.ops[id].calls
		}
		f0, r0 := w.timerFired, w.postRan
		n, err := w.poll()
		n1 := 0
		for id := 0; id < w.nops; id++ {
			n1 += w.ops[id].calls
		}
		ran := (n1 - n0) + (w.timerFired - f0) + (w.postRan - r0)
		vf.Assert("poll-error-is-timeout-only", err == nil || err == sonicerrors.ErrTimeout)
		if ran > 0 {
			vf.Assert("poll-reports-positive-count-when-it-dispatched", vf.All(n > 0, err == nil))
		}
		if vkernel.K.Log.LastN == 0 && err == nil {
			vf.Assert("poll-with-nothing-ready-is-a-timeout", false)
		}
	case 6:
		if !w.timerArmed {
			err := w.timer.ScheduleOnce(time.Duration(1+vf.Choice("delay", 2))*time.Millisecond, func() {
				w.timerFired++
				w.timerArmed = false
			})
			if err == nil {
				w.timerArmed = true
			}
		}
	case 7:
		if w.timerArmed {
			if err := w.timer.Cancel(); err == nil {
				w.timerArmed = false
			}
		}
	case 8:
		if w.posted < 2 {
			w.posted++
			w.ioc.Post(func() { w.postRan++ })
		}
	}
}

func c03New(kind0 vkernel.Kind, batch, waits int) *c03World {
	cfg := vkernel.Config{AllowAgain: true, AllowEOF: true, AllowIOErr: true, AllowEINTR: true, Batch: batch, MaxWaits: waits}
	w := &c03World{world: newWorld(cfg, [2]vkernel.Kind{kind0, vkernel.KStream})}
	t, err := NewTimer(w.ioc)
	vf.Assume(err == nil)
	w.timer = t
	return w
}

func VerifC03_History() {
	kind := vkernel.KStream
	if vf.Bool("regular-file") {
		kind = vkernel.KFile
		vf.Reach("regular-file")
	}
	w := c03New(kind, vf.Bound("batch", 1, 2), vf.Bound("max-waits", 4, 6))
	if vf.Bool("at-dispatch-limit") {
		w.ioc.Dispatched = MaxCallbackDispatch
		vf.Reach("deferred-path")
	}
	w.nest = 1
	vf.Unwind(16)
	w.check("start")
	K := vf.Bound("k", 2, 3)
	for s := 0; s < K; s++ {
		w.step()
		w.check("step")
	}
	vf.Reach("end")
}

// RunPending returns exactly when nothing is in flight any more.
func VerifC03_RunPending() {
	kind := vkernel.KStream
	if vf.Bool("regular-file") {
		kind = vkernel.KFile
	}
	w := c03New(kind, vf.Bound("runpending.batch", 1, 1), vf.Bound("runpending.max-waits", 4, 4))
	w.ioc.Dispatched = MaxCallbackDispatch // every start is deferred
	vf.Unwind(16)
	K := vf.Bound("runpending.k", 2, 3)
	for s := 0; s < K; s++ {
		switch vf.Choice("setup", 4) {
		case 0:
			w.start(0, vf.Choice("dir", 2), false)
		case 1:
			w.start(1, wRead, false)
		case 2:
			if !w.timerArmed {
				if err := w.timer.ScheduleOnce(time.Millisecond, func() { w.timerFired++; w.timerArmed = false }); err == nil {
					w.timerArmed = true
				}
			}
		case 3:
			if w.posted < 2 {
				w.posted++
				w.ioc.Post(func() { w.postRan++ })
			}
		}
	}
	w.ioc.Dispatched = 0
	w.check("armed")
	before := w.ledger()
	err := w.ioc.RunPending()
	vf.Assert("run-pending-no-error", err == nil)
	vf.Assert("run-pending-returns-only-when-nothing-is-in-flight", w.ledger() == 0)
	vf.Assert("pending-zero-after-run-pending", w.ioc.Pending() == 0)
	if before > 0 {
		vf.Reach("had-work")
	}
	vf.Reach("end")
}

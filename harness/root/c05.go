//go:build verif

package sonic

import (
	"github.com/talostrading/sonic/internal"
	"github.com/talostrading/sonic/internal/vf"
	"github.com/talostrading/sonic/internal/vsys/vkernel"
)

// C05(a) — Post on the loop thread: from top level and from inside posted
// handlers and I/O callbacks; exactly once, in posting order, exact counters,
// wake-up, no self-deadlock (the mutex model asserts when the holder locks again).

type c05World struct {
	inflight int // deferred I/O operations not completed yet (counted by Pending() too)
	ioc     *IO
	posted  int
	ran     [6]int
	order   [6]int
	nran    int
	budget  int
}

func (w *c05World) post(depth int) {
	if w.posted >= len(w.ran) {
		return
	}
	id := w.posted
	w.posted++
	err := w.ioc.Post(func() {
		w.ran[id]++
		vf.Assert("posted-handler-runs-once", w.ran[id] == 1)
		w.order[w.nran] = id
		w.nran++
		// re-entrancy: a posted handler may post again
		if depth > 0 && w.budget > 0 && vf.Bool("nested-post") {
			w.budget--
			vf.Reach("opt:nested-post")
			w.post(depth - 1)
		}
	})
	vf.Assert("post-ok", err == nil)
	// wake-up: the eventfd is readable as long as a handler is queued
	wfd := internal.VerifWakerFd(w.ioc.poller)
	vf.Assert("post-wakes-the-loop", vkernel.K.FDs[wfd].Counter > 0)
}

func (w *c05World) check() {
	vf.Assert("pending-counts-posts-not-run", w.ioc.Pending() == int64(w.posted-w.nran+w.inflight))
	vf.Assert("posted-counts-posts-not-run", w.ioc.Posted() == w.posted-w.nran)
	for i := 0; i+1 < w.nran; i++ {
		vf.Assert("handlers-run-in-posting-order", w.order[i] < w.order[i+1])
	}
}

func VerifC05_Reentrant() {
	vkernel.Reset(vkernel.Config{Batch: 1, MaxWaits: 4})
	w := &c05World{ioc: MustIO(), budget: vf.Bound("nested-posts", 2, 3)}
	vf.Unwind(16)
	n := 1 + vf.Choice("top-level-posts", 3)
	for i := 0; i < n; i++ {
		w.post(vf.Bound("nesting", 2, 2))
	}
	w.check()
	polls := vf.Bound("polls", 3, 4)
	for p := 0; p < polls; p++ {
		before := w.nran
		np, err := w.ioc.PollOne()
		if w.nran > before {
			vf.Assert("poll-reports-dispatch", vf.All(np > 0, err == nil))
		}
		w.check()
	}
	// everything posted before the last cycle that delivered the waker has run
	if w.posted == w.nran {
		vf.Reach("all-ran")
		for i := 0; i < w.posted; i++ {
			vf.Assert("every-posted-handler-ran-exactly-once", w.ran[i] == 1)
		}
	}
	vf.Reach("end")
}

// Post from inside an I/O completion callback dispatched by the poller.
func VerifC05_PostFromCallback() {
	vkernel.Reset(vkernel.Config{AllowAgain: true, Batch: 2, MaxWaits: 3})
	w := &c05World{ioc: MustIO()}
	f := newFile(w.ioc, vkernel.NewStream())
	w.ioc.Dispatched = MaxCallbackDispatch
	vf.Unwind(16)
	done := 0
	w.inflight = 1
	f.AsyncRead(make([]byte, 2), func(error, int) {
		done++
		w.inflight = 0
		w.post(0)
	})
	w.ioc.Dispatched = 0
	w.post(0)
	for p := 0; p < 3; p++ {
		w.ioc.PollOne()
		w.check()
	}
	if done == 1 && w.nran == w.posted {
		vf.Reach("both-ran")
	}
	vf.Reach("end")
}

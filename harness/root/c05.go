//go:build verif

package sonic

import (
	"github.com/talostrading/sonic/internal"
	"github.com/talostrading/sonic/internal/vf"
	"github.com/talostrading/sonic/internal/vsys/vkernel"
)

// C05(a) — Post on the loop thread: from top level and from inside posted
// handlers and I/O callbacks; exactly once, in posting order, exact counters,
// wake-up, no self-deadlock (the mutex model asserts when the holder locks again).

type c05World struct {
	inflight int // deferred I/O operations not completed yet (counted by Pending() too)
	ioc     *IO
	posted  int
	ran     [6]int
	order   [6]int
	nran    int
	budget  int
}

func (w *c05World) post(depth int) {
	if w.posted >= len(w.ran) {
		return
	}
	id := w.posted
	w.posted++
	err := w.ioc.Post(func() {
		w.ran[id]++
		vf.Assert("posted-handler-runs-once", w.ran[id] == 1)
		w.order[w.nran] = id
		w.nran++
		// re-entrancy: a posted handler may post again
		if depth > 0 && w.budget > 0 && vf.Bool("nested-post") {
			w.budget--
			vf.Reach("opt:nested-post")
			w.post(depth - 1)
		}
	})
	vf.Assert("post-ok", err == nil)
	// wake-up: the eventfd is readable as long as a handler is queued
	wfd := internal.VerifWakerFd(w.ioc.poller)
	vf.Assert("post-wakes-the-loop", vkernel.K.FDs[wfd].Counter > 0)
}

func (w *c05World) check() {
	vf.Assert("pending-counts-posts-not-run", w.ioc.Pending() == int64(w.posted-w.nran+w.inflight))
	vf.Assert("posted-counts-posts-not-run", w.ioc.Posted() == w.posted-w.nran)
	// between poll cycles: a handler that is still queued is announced on the eventfd, otherwise a loop
	// blocking in epoll_wait would never run it
	if w.posted-w.nran > 0 {
		wfd := internal.VerifWakerFd(w.ioc.poller)
		vf.Assert("queued-handler-keeps-the-waker-readable", vkernel.K.FDs[wfd].Counter > 0)
	}
	for i := 0; i+1 < w.nran; i++ {
		vf.Assert("handlers-run-in-posting-order", w.order[i] < w.order[i+1])
	}
}

func VerifC05_Reentrant() {
	vkernel.Reset(vkernel.Config{Batch: 1, MaxWaits: 4})
	w := &c05World{ioc: MustIO(), budget: vf.Bound("nested-posts", 2, 3)}
	vf.Unwind(16)
	n := 1 + vf.Choice("top-level-posts", 3)
	for i := 0; i < n; i++ {
		w.post(vf.Bound("nesting", 2, 2))
	}
	w.check()
	polls := vf.Bound("polls", 3, 4)
	for p := 0; p < polls; p++ {
		before := w.nran
		np, err := w.ioc.PollOne()
		if w.nran > before {
			vf.Assert("poll-reports-dispatch", vf.All(np > 0, err == nil))
		}
		w.check()
	}
	// everything posted before the last cycle that delivered the waker has run
	if w.posted == w.nran {
		vf.Reach("all-ran")
		for i := 0; i < w.posted; i++ {
			vf.Assert("every-posted-handler-ran-exactly-once", w.ran[i] == 1)
		}
	}
	vf.Reach("end")
}

// Post from inside an I/O completion callback dispatched by the poller.
func VerifC05_PostFromCallback() {
	vkernel.Reset(vkernel.Config{AllowAgain: true, Batch: 2, MaxWaits: 3})
	w := &c05World{ioc: MustIO()}
	f := newFile(w.ioc, vkernel.NewStream())
	w.ioc.Dispatched = MaxCallbackDispatch
	vf.Unwind(16)
	done := 0
	w.inflight = 1
	f.AsyncRead(make([]byte, 2), func(error, int) {
		done++
		w.inflight = 0
		w.post(0)
	})
	w.ioc.Dispatched = 0
	w.post(0)
	for p := 0; p < 3; p++ {
		w.ioc.PollOne()
		w.check()
	}
	if done == 1 && w.nran == w.posted {
		vf.Reach("both-ran")
	}
	vf.Reach("end")
}

// C05(b,c) — Post from OTHER goroutines, concurrently with the loop. The engine runs the posters
// as logical threads and explores the interleavings (bounded number of preemptive context
// switches, taken at the mutex, eventfd and epoll operations); every access of the code under
// test to shared memory is checked for happens-before ordering (data races).
func VerifC05_Concurrent() {
	vkernel.Reset(vkernel.Config{Batch: 1, MaxWaits: 8})
	ioc := MustIO()
	vf.MaxSwitches(vf.Bound("context-switches", 3, 4))
	vf.RaceCheck(true)
	nPosters := vf.Bound("posters", 1, 3)
	perPoster := vf.Bound("posts-per-poster", 2, 2)
	var ran [3][2]int
	var order [6]int
	nran, posted := 0, 0
	wfd := internal.VerifWakerFd(ioc.poller)
	for i := 0; i < nPosters; i++ {
		id := i
		vf.Go(func() {
			for s := 0; s < perPoster; s++ {
				seq := s
				err := ioc.Post(func() {
					ran[id][seq]++
					vf.Assert("handler-runs-on-the-loop-thread", vf.ThreadID() == 0)
					vf.Assert("handler-runs-once", ran[id][seq] == 1)
					order[nran] = id*2 + seq
					nran++
				})
				vf.Assert("post-ok", err == nil)
				posted++
			}
		})
	}
	vf.Unwind(16)
	// the loop thread polls while the posters run
	for c := 0; c < 2; c++ {
		ioc.PollOne()
	}
	vf.Join()
	vf.Assert("all-posts-returned", posted == nPosters*perPoster)
	// Quiescent point: no thread is inside Post or dispatch. A handler that is still queued must be
	// announced on the eventfd, otherwise a loop blocked in epoll_wait would sleep for ever.
	vf.Assert("pending-equals-posts-not-run", ioc.Pending() == int64(posted-nran))
	vf.Assert("posted-equals-posts-not-run", ioc.Posted() == posted-nran)
	if posted-nran > 0 {
		vf.Reach("opt:handlers-still-queued")
		vf.Assert("no-lost-wake-up", vkernel.K.FDs[wfd].Counter > 0)
	}
	// the loop keeps running: everything posted is executed exactly once, per poster in posting order
	vkernel.K.Cfg.Eager = true
	for c := 0; c < 3; c++ {
		ioc.PollOne()
	}
	for i := 0; i < nPosters; i++ {
		for s := 0; s < perPoster; s++ {
			vf.Assert("every-posted-handler-ran-exactly-once", ran[i][s] == 1)
		}
	}
	for a := 0; a < nran; a++ {
		for b := a + 1; b < nran; b++ {
			if order[a]/2 == order[b]/2 {
				vf.Assert("per-poster-order-preserved", order[a] < order[b])
			}
		}
	}
	vf.Assert("counters-back-to-zero", vf.All(ioc.Pending() == 0, ioc.Posted() == 0))
	vf.Reach("end")
}

//go:build verif

package sonic

import "github.com/talostrading/sonic/internal/vf"

// C10 — BipBuffer. Inductive-step harnesses from an arbitrary state that
// satisfies the representation invariant (DESIGN Appendix C), plus a bounded
// history from NewBipBuffer that is representation independent.

func c10Inv(b *BipBuffer) bool {
	S := len(b.data)
	claimLen := b.claimTail - b.claimHead
	committed := b.tail - b.head + b.wrappedTail - b.wrappedHead
	return vf.All(
		1 <= S, S <= vf.MEM,
		0 <= b.head, b.head <= b.tail, b.tail <= S,
		b.wrappedHead == 0,
		0 <= b.wrappedTail, b.wrappedTail <= b.head,
		vf.Implies(b.wrappedTail > 0, b.tail > b.head),
		0 <= b.claimHead, b.claimHead <= b.claimTail, b.claimTail <= S,
		// an outstanding non-empty claim is disjoint from both committed regions
		vf.Implies(claimLen > 0, vf.Any(b.claimTail <= b.head, b.claimHead >= b.tail)),
		vf.Implies(claimLen > 0, b.claimHead >= b.wrappedTail),
		// ... and sits where the next commit will be appended in FIFO order
		vf.Implies(vf.All(claimLen > 0, committed > 0, b.wrappedTail > 0), b.claimHead == b.wrappedTail),
		vf.Implies(vf.All(claimLen > 0, committed > 0, b.wrappedTail == 0), vf.Any(b.claimHead == b.tail, vf.All(b.claimHead == 0, b.claimTail <= b.head))),
		// an empty buffer is in its initial position (needed for "empty grants a full claim")
		vf.Implies(committed == 0, vf.All(b.head == 0, b.tail == 0)),
	)
}

func c10Arbitrary() *BipBuffer {
	S := vf.Len("size")
	vf.Assume(vf.All(1 <= S, S <= vf.MEM))
	b := &BipBuffer{data: vf.Bytes("data", S)}
	b.head = vf.Int("head")
	b.tail = vf.Int("tail")
	b.wrappedHead = vf.Int("wrappedHead")
	b.wrappedTail = vf.Int("wrappedTail")
	b.claimHead = vf.Int("claimHead")
	b.claimTail = vf.Int("claimTail")
	vf.Assume(c10Inv(b))
	return b
}

func VerifC10_StepClaim() {
	b := c10Arbitrary()
	n := vf.Int("n")
	vf.Assume(n >= 0)
	S := len(b.data)
	h, t, wt := b.head, b.tail, b.wrappedTail
	wasEmpty := b.Empty()
	r := b.Claim(n)
	vf.Assert("claim-len-le-n", len(r) <= n)
	vf.Assert("claim-is-claimed", len(r) == b.Claimed())
	vf.Assert("claim-keeps-committed", vf.All(b.head == h, b.tail == t, b.wrappedTail == wt, b.wrappedHead == 0))
	// the slice handed out is data[claimHead:claimTail]; disjoint from both committed regions
	cl := b.claimTail - b.claimHead
	vf.Assert("claim-disjoint-primary", vf.Implies(cl > 0, vf.Any(b.claimTail <= h, b.claimHead >= t)))
	vf.Assert("claim-disjoint-wrapped", vf.Implies(cl > 0, b.claimHead >= wt))
	vf.Assert("claim-in-buffer", vf.All(0 <= b.claimHead, b.claimTail <= S))
	if wasEmpty {
		vf.Reach("empty-claim")
		want := n
		if want > S {
			want = S
		}
		vf.Assert("empty-grants-full-claim", len(r) == want)
	}
	vf.Assert("inv", c10Inv(b))
	vf.Reach("end")
}

func VerifC10_StepCommit() {
	b := c10Arbitrary()
	n := vf.Int("n")
	vf.Assume(n >= 0)
	h, t, wt := b.head, b.tail, b.wrappedTail
	ch, ct := b.claimHead, b.claimTail
	before := b.Committed()
	k := ct - ch
	if k > n {
		k = n
	}
	r := b.Commit(n)
	vf.Assert("commit-count", b.Committed() == before+k)
	vf.Assert("commit-chunk-len", len(r) == k)
	vf.Assert("commit-clears-claim", b.Claimed() == 0)
	if k > 0 {
		vf.Reach("commit-nonempty")
		// FIFO = primary ++ wrapped; the chunk [ch,ch+k) must become its new last element, contiguous
		switch {
		case before == 0:
			vf.Reach("commit-into-empty")
			vf.Assert("fifo-append-empty", vf.All(b.head == ch, b.tail == ch+k, b.wrappedTail == 0))
		case wt > 0:
			vf.Reach("commit-behind-wrapped")
			vf.Assert("fifo-append-wrapped", vf.All(b.head == h, b.tail == t, ch == wt, b.wrappedTail == wt+k))
		default:
			vf.Assert("fifo-append", vf.Any(
				vf.All(b.head == h, ch == t, b.tail == t+k, b.wrappedTail == 0),
				vf.All(b.head == h, b.tail == t, ch == 0, b.wrappedTail == k, k <= h)))
		}
	} else {
		vf.Assert("commit-nothing-keeps-fifo", vf.All(b.Committed() == before, vf.Implies(before > 0, vf.All(b.head == h, b.tail == t, b.wrappedTail == wt))))
	}
	vf.Known("KF-C10-1", vf.All(before == 0, ct == ch, ch != 0, n > 0))
	vf.Assert("inv", c10Inv(b))
	vf.Reach("end")
}

func VerifC10_StepConsume() {
	b := c10Arbitrary()
	n := vf.Int("n")
	vf.Assume(n >= 0)
	h, t, wt := b.head, b.tail, b.wrappedTail
	before := b.Committed()
	hd := b.Head()
	vf.Assert("head-is-oldest", vf.All(len(hd) == t-h, vf.Implies(before > 0, len(hd) > 0)))
	k := n
	if k > t-h {
		k = t - h
	}
	b.Consume(n)
	vf.Assert("consume-count", b.Committed() == before-k)
	if k < t-h {
		vf.Reach("consume-partial")
		vf.Assert("consume-partial", vf.All(b.head == h+k, b.tail == t, b.wrappedTail == wt))
	} else {
		vf.Reach("consume-all-of-head")
		vf.Assert("consume-head-promotes-wrapped", vf.All(b.head == 0, b.tail == wt, b.wrappedTail == 0))
	}
	vf.Assert("inv", c10Inv(b))
	vf.Reach("end")
}

func VerifC10_StepReset() {
	b := c10Arbitrary()
	b.Reset()
	vf.Assert("reset-empty", vf.All(b.Empty(), b.Committed() == 0, b.Claimed() == 0, len(b.Head()) == 0))
	vf.Assert("inv", c10Inv(b))
	vf.Reach("end")
}

// Bounded history from the real constructor: representation independent.
// Ghost: total committed, total consumed, and the extent of the last claim.
func VerifC10_History() {
	size := vf.Len("size")
	vf.Assume(vf.All(1 <= size, size <= 1<<31))
	b := NewBipBuffer(size)
	K := vf.Bound("k", 4, 6)
	committed, consumed := 0, 0
	for i := 0; i < K; i++ {
		switch vf.Choice("op", 3) {
		case 0:
			n := vf.Int("n")
			vf.Assume(n >= 0)
			empty := b.Empty()
			r := b.Claim(n)
			if empty {
				want := n
				if want > size {
					want = size
				}
				vf.Known("KF-C10-1", true)
				vf.Assert("hist-empty-grants-full-claim", len(r) == want)
			}
		case 1:
			n := vf.Int("n")
			vf.Assume(n >= 0)
			r := b.Commit(n)
			committed += len(r)
		case 2:
			n := vf.Int("n")
			vf.Assume(n >= 0)
			hl := len(b.Head())
			if n > hl {
				n = hl
			}
			b.Consume(n)
			consumed += n
		}
		vf.Assert("hist-committed", b.Committed() == committed-consumed)
		vf.Assert("hist-head-nonempty", vf.Implies(committed-consumed > 0, len(b.Head()) > 0))
	}
	vf.Reach("end")
}

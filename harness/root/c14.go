//go:build verif

package sonic

import (
	"net"

	"github.com/talostrading/sonic/internal"
	"github.com/talostrading/sonic/internal/vf"
	"github.com/talostrading/sonic/internal/vsys/vkernel"
)

// C14 — inline completions never nest deeper than MaxCallbackDispatch (+1 for
// the poller), from an ARBITRARY depth d (induction over chains of any
// length), for each copy of the logic: file read/write, listener accept,
// packet conn read/write.

type c14World struct {
	ioc   *IO
	epfd  int
	d     int
	depth int // callbacks currently on the stack (ghost)
	max   int
	under int // 1 while the poller is dispatching (its callback is the "+1" of the property)
}

func c14New() *c14World {
	// operations may FAIL immediately (reset, refused, EPERM, end of stream): a failure is a completion too
	// and its callback is on the stack like any other
	vkernel.Reset(vkernel.Config{AllowAgain: false, AllowEOF: true, AllowIOErr: true, Batch: 1})
	w := &c14World{ioc: MustIO()}
	w.epfd = internal.VerifPollerFd(w.ioc.poller)
	d := vf.Int("d")
	vf.Assume(vf.All(0 <= d, d <= MaxCallbackDispatch))
	w.d = d
	w.ioc.Dispatched = d
	w.depth = d
	return w
}

func (w *c14World) enter() {
	w.depth++
	if w.depth > w.max {
		w.max = w.depth
	}
	vf.Assert("nesting-within-limit", w.depth <= MaxCallbackDispatch+1)
	vf.Assert("dispatched-counts-the-stack", w.ioc.Dispatched == w.depth-w.under)
	vf.Assert("dispatched-within-limit", w.ioc.Dispatched <= MaxCallbackDispatch)
}

func (w *c14World) leave() { w.depth-- }

func (w *c14World) armedKernel(fd int, bit uint32) bool {
	reg, ev := vkernel.Registered(w.epfd, fd)
	return reg && ev&bit != 0
}

// c14Chain: operation A completes immediately; its callback starts B on another object kind.
func VerifC14_File() {
	w := c14New()
	var kind vkernel.Kind
	var fd int
	switch vf.Choice("kind", 4) {
	case 0:
		kind, fd = vkernel.KStream, vkernel.NewStream()
	case 1:
		kind, fd = vkernel.KPipeR, vkernel.NewPipeRead()
	case 2:
		kind, fd = vkernel.KPipeW, vkernel.NewPipeWrite()
	case 3:
		kind, fd = vkernel.KFile, vkernel.NewRegularFile()
		vf.Reach("regular-file")
	}
	f := newFile(w.ioc, fd)
	other := newFile(w.ioc, vkernel.NewStream())
	write := kind == vkernel.KPipeW || (kind != vkernel.KPipeR && vf.Bool("write"))
	buf := make([]byte, 4)
	calls, nested := 0, 0
	var gotErr error
	gotN := 0
	cb := func(err error, n int) {
		w.enter()
		calls++
		gotErr, gotN = err, n
		// a mixed chain: start one more operation on another object from inside the callback
		other.AsyncRead(make([]byte, 2), func(error, int) {
			w.enter()
			nested++
			w.leave()
		})
		w.leave()
	}
	vf.Known("KF-C14-1", vf.All(kind == vkernel.KFile, w.d == MaxCallbackDispatch))
	if write {
		f.AsyncWriteAll(buf, cb)
	} else {
		f.AsyncReadAll(buf, cb)
	}
	vf.Assert("depth-accounting-restored", vf.All(w.ioc.Dispatched == w.d, w.depth == w.d))
	if w.d < MaxCallbackDispatch {
		vf.Reach("inline")
		vf.Assert("inline-completes-synchronously", vf.All(calls == 1, vf.Any(gotErr != nil, gotN == 4)))
		if gotErr != nil {
			vf.Reach("opt:inline-failure")
		}
		if w.d+1 < MaxCallbackDispatch {
			vf.Assert("nested-inline-too", nested == 1)
		} else {
			vf.Reach("nested-deferred")
			vf.Assert("nested-deferred-at-the-limit", vf.All(nested == 0, w.armedKernel(other.slot.Fd, vkernel.EPOLLIN)))
		}
		return
	}
	vf.Reach("at-limit")
	vf.Assert("deferred-not-run-synchronously", calls == 0)
	bit := uint32(vkernel.EPOLLIN)
	if write {
		bit = vkernel.EPOLLOUT
	}
	vf.Assert("deferred-is-armed", w.armedKernel(fd, bit))
	// the stack has unwound: the poller now dispatches it and it completes like the inline path would
	w.ioc.Dispatched = 0
	w.depth = 0
	w.under = 1
	n, err := w.ioc.PollOne()
	w.under = 0
	if vkernel.K.Log.LastN == 1 && vkernel.K.Log.LastBatch[0] == fd {
		vf.Reach("dispatched-by-poller")
		vf.Assert("deferred-completes-with-the-inline-result", vf.All(n == 1, err == nil, calls == 1, vf.Any(gotErr != nil, gotN == 4)))
		vf.Assert("poller-adds-one-level", w.max <= MaxCallbackDispatch+1)
	}
	vf.Assert("depth-zero-after-unwinding", vf.All(w.ioc.Dispatched == 0, w.depth == 0))
	vf.Reach("end")
}

func VerifC14_Accept() {
	w := c14New()
	lfd := vkernel.NewListener()
	l := &listener{ioc: w.ioc, slot: internal.Slot{Fd: lfd}}
	calls := 0
	var gotErr error
	var gotConn Conn
	l.AsyncAccept(func(err error, c Conn) {
		w.enter()
		calls++
		gotErr, gotConn = err, c
		w.leave()
	})
	vf.Assert("depth-accounting-restored", vf.All(w.ioc.Dispatched == w.d, w.depth == w.d))
	if w.d < MaxCallbackDispatch {
		vf.Reach("inline")
		vf.Assert("inline-accept", vf.All(calls == 1, vf.Any(gotErr != nil, gotConn != nil)))
		return
	}
	vf.Reach("at-limit")
	vf.Assert("deferred-not-run-synchronously", calls == 0)
	vf.Assert("deferred-is-armed", w.armedKernel(lfd, vkernel.EPOLLIN))
	w.ioc.Dispatched, w.depth, w.under = 0, 0, 1
	n, err := w.ioc.PollOne()
	w.under = 0
	if vkernel.K.Log.LastN == 1 && vkernel.K.Log.LastBatch[0] == lfd {
		vf.Reach("dispatched-by-poller")
		vf.Assert("deferred-accept-completes", vf.All(n == 1, err == nil, calls == 1, vf.Any(gotErr != nil, gotConn != nil)))
	}
	vf.Assert("depth-zero-after-unwinding", vf.All(w.ioc.Dispatched == 0, w.depth == 0))
	vf.Reach("end")
}

func VerifC14_Packet() {
	w := c14New()
	fd := vkernel.NewDgram()
	c := &packetConn{ioc: w.ioc, slot: internal.Slot{Fd: fd}}
	write := vf.Bool("write")
	calls := 0
	var gotErr error
	gotN := -1
	buf := make([]byte, 8)
	if write {
		to := &net.UDPAddr{IP: net.IP{10, 0, 0, 1}, Port: 9}
		c.AsyncWriteTo(buf[:3], to, func(err error) {
			w.enter()
			calls++
			gotErr = err
			w.leave()
		})
	} else {
		c.AsyncReadFrom(buf, func(err error, n int, from net.Addr) {
			w.enter()
			calls++
			gotErr, gotN = err, n
			w.leave()
		})
	}
	vf.Assert("depth-accounting-restored", vf.All(w.ioc.Dispatched == w.d, w.depth == w.d))
	if w.d < MaxCallbackDispatch {
		vf.Reach("inline")
		vf.Assert("inline-datagram", calls == 1)
		if gotErr != nil {
			vf.Reach("opt:inline-failure")
		}
		return
	}
	vf.Reach("at-limit")
	vf.Assert("deferred-not-run-synchronously", calls == 0)
	bit := uint32(vkernel.EPOLLIN)
	if write {
		bit = vkernel.EPOLLOUT
	}
	vf.Assert("deferred-is-armed", w.armedKernel(fd, bit))
	w.ioc.Dispatched, w.depth, w.under = 0, 0, 1
	n, err := w.ioc.PollOne()
	w.under = 0
	if vkernel.K.Log.LastN == 1 && vkernel.K.Log.LastBatch[0] == fd {
		vf.Reach("dispatched-by-poller")
		vf.Assert("deferred-datagram-completes", vf.All(n == 1, err == nil, calls == 1))
		if !write && gotErr == nil {
			vf.Assert("deferred-read-has-the-datagram", gotN >= 1)
		}
	}
	vf.Assert("depth-zero-after-unwinding", vf.All(w.ioc.Dispatched == 0, w.depth == 0))
	vf.Reach("end")
}

// VerifC14_Chain composes the step: a real chain of L operations, each started
// from the completion callback of the previous one, over a rotation of the four
// copies of the dispatch logic (file read, file write, accept, datagram write; a symbolic-length
// datagram READ per step would fork on length in the model and is left to the step harness),
// from an empty stack. L is symbolic up to 2*MaxCallbackDispatch+6 (quick: +2), so
// the chain crosses the limit at least twice and is resumed by the poller each time.
func VerifC14_Chain() {
	// Eager: a poll reports what is ready (the chain has exactly one operation armed at a time)
	vkernel.Reset(vkernel.Config{Batch: 1, Eager: true})
	w := &c14World{ioc: MustIO()}
	w.epfd = internal.VerifPollerFd(w.ioc.poller)
	extra := vf.Bound("extra", 2, 6)
	L := vf.Int("L")
	vf.Assume(vf.All(1 <= L, L <= 2*MaxCallbackDispatch+extra))
	L = vf.Concretize(L, 80)
	rot := vf.Choice("rotation", 4)
	rf := newFile(w.ioc, vkernel.NewStream())
	wf := newFile(w.ioc, vkernel.NewStream())
	l := &listener{ioc: w.ioc, slot: internal.Slot{Fd: vkernel.NewListener()}}
	pc := &packetConn{ioc: w.ioc, slot: internal.Slot{Fd: vkernel.NewDgram()}}
	vf.Unwind(4 * MaxCallbackDispatch)
	dbuf := make([]byte, 3)
	to := &net.UDPAddr{IP: net.IP{10, 0, 0, 1}, Port: 9}
	done := 0
	var step func(i int)
	fin := func(i int, err error) {
		w.enter()
		vf.Assert("chain-step-succeeds", err == nil)
		vf.Assert("chain-steps-complete-in-order", done == i)
		done++
		if i+1 < L {
			step(i + 1)
		}
		w.leave()
	}
	step = func(i int) {
		switch (i + rot) % 4 {
		case 0:
			rf.AsyncReadAll(make([]byte, 2), func(err error, n int) { fin(i, err) })
		case 1:
			wf.AsyncWriteAll(make([]byte, 2), func(err error, n int) { fin(i, err) })
		case 2:
			l.AsyncAccept(func(err error, c Conn) {
				if c != nil {
					c.Close() // the model's descriptor table is small
				}
				fin(i, err)
			})
		case 3:
			pc.AsyncWriteTo(dbuf, to, func(err error) { fin(i, err) })
		}
	}
	step(0)
	vf.Assert("stack-unwound-after-the-first-call", vf.All(w.depth == 0, w.ioc.Dispatched == 0))
	if L <= MaxCallbackDispatch {
		vf.Assert("short-chain-runs-inline", done == L)
	} else {
		vf.Assert("long-chain-stops-at-the-limit", done == MaxCallbackDispatch)
	}
	polls := 0
	for done < L && polls < 4 {
		w.under = 1
		_, err := w.ioc.PollOne()
		w.under = 0
		polls++
		vf.Assert("poll-ok", err == nil)
		vf.Assert("stack-unwound-after-poll", vf.All(w.depth == 0, w.ioc.Dispatched == 0))
	}
	vf.Assert("whole-chain-ran", done == L)
	vf.Assert("max-depth-is-limit-plus-poller", w.max <= MaxCallbackDispatch+1)
	if L > MaxCallbackDispatch {
		vf.Reach("crossed-limit")
	}
	vf.Reach("end")
}

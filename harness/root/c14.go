//go:build verif

package sonic

import (
	"net"

	"github.com/talostrading/sonic/internal"
	"github.com/talostrading/sonic/internal/vf"
	"github.com/talostrading/sonic/internal/vsys/vkernel"
)

// C14 — inline completions never nest deeper than MaxCallbackDispatch (+1 for
// the poller), from an ARBITRARY depth d (induction over chains of any
// length), for each copy of the logic: file read/write, listener accept,
// packet conn read/write.

type c14World struct {
	ioc   *IO
	epfd  int
	d     int
	depth int // callbacks currently on the stack (ghost)
	max   int
	under int // 1 while the poller is dispatching (its callback is the "+1" of the property)
}

func c14New() *c14World {
	vkernel.Reset(vkernel.Config{AllowAgain: false, AllowEOF: false, AllowIOErr: false, Batch: 1})
	w := &c14World{ioc: MustIO()}
	w.epfd = internal.VerifPollerFd(w.ioc.poller)
	d := vf.Int("d")
	vf.Assume(vf.All(0 <= d, d <= MaxCallbackDispatch))
	w.d = d
	w.ioc.Dispatched = d
	w.depth = d
	return w
}

func (w *c14World) enter() {
	w.depth++
	if w.depth > w.max {
		w.max = w.depth
	}
	vf.Assert("nesting-within-limit", w.depth <= MaxCallbackDispatch+1)
	vf.Assert("dispatched-counts-the-stack", w.ioc.Dispatched == w.depth-w.under)
	vf.Assert("dispatched-within-limit", w.ioc.Dispatched <= MaxCallbackDispatch)
}

func (w *c14World) leave() { w.depth-- }

func (w *c14World) armedKernel(fd int, bit uint32) bool {
	reg, ev := vkernel.Registered(w.epfd, fd)
	return reg && ev&bit != 0
}

// c14Chain: operation A completes immediately; its callback starts B on another object kind.
func VerifC14_File() {
	w := c14New()
	var kind vkernel.Kind
	var fd int
	switch vf.Choice("kind", 4) {
	case 0:
		kind, fd = vkernel.KStream, vkernel.NewStream()
	case 1:
		kind, fd = vkernel.KPipeR, vkernel.NewPipeRead()
	case 2:
		kind, fd = vkernel.KPipeW, vkernel.NewPipeWrite()
	case 3:
		kind, fd = vkernel.KFile, vkernel.NewRegularFile()
		vf.Reach("regular-file")
	}
	f := newFile(w.ioc, fd)
	other := newFile(w.ioc, vkernel.NewStream())
	write := kind == vkernel.KPipeW || (kind != vkernel.KPipeR && vf.Bool("write"))
	buf := make([]byte, 4)
	calls, nested := 0, 0
	var gotErr error
	gotN := 0
	cb := func(err error, n int) {
		w.enter()
		calls++
		gotErr, gotN = err, n
		// a mixed chain: start one more operation on another object from inside the callback
		other.AsyncRead(make([]byte, 2), func(error, int) {
			w.enter()
			nested++
			w.leave()
		})
		w.leave()
	}
	vf.Known("KF-C14-1", vf.All(kind == vkernel.KFile, w.d == MaxCallbackDispatch))
	if write {
		f.AsyncWriteAll(buf, cb)
	} else {
		f.AsyncReadAll(buf, cb)
	}
	vf.Assert("depth-accounting-restored", vf.All(w.ioc.Dispatched == w.d, w.depth == w.d))
	if w.d < MaxCallbackDispatch {
		vf.Reach("inline")
		vf.Assert("inline-completes-synchronously", vf.All(calls == 1, gotErr == nil, gotN == 4))
		if w.d+1 < MaxCallbackDispatch {
			vf.Assert("nested-inline-too", nested == 1)
		} else {
			vf.Reach("nested-deferred")
			vf.Assert("nested-deferred-at-the-limit", vf.All(nested == 0, w.armedKernel(other.slot.Fd, vkernel.EPOLLIN)))
		}
		return
	}
	vf.Reach("at-limit")
	vf.Assert("deferred-not-run-synchronously", calls == 0)
	bit := uint32(vkernel.EPOLLIN)
	if write {
		bit = vkernel.EPOLLOUT
	}
	vf.Assert("deferred-is-armed", w.armedKernel(fd, bit))
	// the stack has unwound: the poller now dispatches it and it completes like the inline path would
	w.ioc.Dispatched = 0
	w.depth = 0
	w.under = 1
	n, err := w.ioc.PollOne()
	w.under = 0
	if vkernel.K.Log.LastN == 1 && vkernel.K.Log.LastBatch[0] == fd {
		vf.Reach("dispatched-by-poller")
		vf.Assert("deferred-completes-with-the-inline-result", vf.All(n == 1, err == nil, calls == 1, gotErr == nil, gotN == 4))
		vf.Assert("poller-adds-one-level", w.max <= MaxCallbackDispatch+1)
	}
	vf.Assert("depth-zero-after-unwinding", vf.All(w.ioc.Dispatched == 0, w.depth == 0))
	vf.Reach("end")
}

func VerifC14_Accept() {
	w := c14New()
	lfd := vkernel.NewListener()
	l := &listener{ioc: w.ioc, slot: internal.Slot{Fd: lfd}}
	calls := 0
	var gotErr error
	var gotConn Conn
	l.AsyncAccept(func(err error, c Conn) {
		w.enter()
		calls++
		gotErr, gotConn = err, c
		w.leave()
	})
	vf.Assert("depth-accounting-restored", vf.All(w.ioc.Dispatched == w.d, w.depth == w.d))
	if w.d < MaxCallbackDispatch {
		vf.Reach("inline")
		vf.Assert("inline-accept", vf.All(calls == 1, gotErr == nil, gotConn != nil))
		return
	}
	vf.Reach("at-limit")
	vf.Assert("deferred-not-run-synchronously", calls == 0)
	vf.Assert("deferred-is-armed", w.armedKernel(lfd, vkernel.EPOLLIN))
	w.ioc.Dispatched, w.depth, w.under = 0, 0, 1
	n, err := w.ioc.PollOne()
	w.under = 0
	if vkernel.K.Log.LastN == 1 && vkernel.K.Log.LastBatch[0] == lfd {
		vf.Reach("dispatched-by-poller")
		vf.Assert("deferred-accept-completes", vf.All(n == 1, err == nil, calls == 1, gotErr == nil, gotConn != nil))
	}
	vf.Assert("depth-zero-after-unwinding", vf.All(w.ioc.Dispatched == 0, w.depth == 0))
	vf.Reach("end")
}

func VerifC14_Packet() {
	w := c14New()
	fd := vkernel.NewDgram()
	c := &packetConn{ioc: w.ioc, slot: internal.Slot{Fd: fd}}
	write := vf.Bool("write")
	calls := 0
	var gotErr error
	gotN := -1
	buf := make([]byte, 8)
	if write {
		to := &net.UDPAddr{IP: net.IP{10, 0, 0, 1}, Port: 9}
		c.AsyncWriteTo(buf[:3], to, func(err error) {
			w.enter()
			calls++
			gotErr = err
			w.leave()
		})
	} else {
		c.AsyncReadFrom(buf, func(err error, n int, from net.Addr) {
			w.enter()
			calls++
			gotErr, gotN = err, n
			w.leave()
		})
	}
	vf.Assert("depth-accounting-restored", vf.All(w.ioc.Dispatched == w.d, w.depth == w.d))
	if w.d < MaxCallbackDispatch {
		vf.Reach("inline")
		vf.Assert("inline-datagram", vf.All(calls == 1, gotErr == nil))
		return
	}
	vf.Reach("at-limit")
	vf.Assert("deferred-not-run-synchronously", calls == 0)
	bit := uint32(vkernel.EPOLLIN)
	if write {
		bit = vkernel.EPOLLOUT
	}
	vf.Assert("deferred-is-armed", w.armedKernel(fd, bit))
	w.ioc.Dispatched, w.depth, w.under = 0, 0, 1
	n, err := w.ioc.PollOne()
	w.under = 0
	if vkernel.K.Log.LastN == 1 && vkernel.K.Log.LastBatch[0] == fd {
		vf.Reach("dispatched-by-poller")
		vf.Assert("deferred-datagram-completes", vf.All(n == 1, err == nil, calls == 1, gotErr == nil))
		if !write {
			vf.Assert("deferred-read-has-the-datagram", gotN >= 1)
		}
	}
	vf.Assert("depth-zero-after-unwinding", vf.All(w.ioc.Dispatched == 0, w.depth == 0))
	vf.Reach("end")
}

//go:build verif

package sonic

import (
	"io"

	"github.com/talostrading/sonic/internal/vf"
)

// C09 — ByteBuffer: one inductive-step harness per public method, from an
// arbitrary state satisfying the representation invariant
//   0 <= si <= ri <= wi == len(data) <= cap(data) <= MEM
// with every integer argument ranging over all of int, and a short bounded
// history from NewByteBuffer().

const c09MEM = vf.MEM

func c09Inv(b *ByteBuffer) bool {
	return vf.All(0 <= b.si, b.si <= b.ri, b.ri <= b.wi, b.wi == len(b.data), len(b.data) <= cap(b.data),
		b.SaveLen()+b.ReadLen()+b.WriteLen() == b.Len(),
		b.SaveLen() == b.si, b.ReadLen() == b.ri-b.si, b.WriteLen() == b.wi-b.ri)
}

func c09Arbitrary() *ByteBuffer {
	capv := vf.Len("cap")
	wi := vf.Len("wi")
	ri := vf.Int("ri")
	si := vf.Int("si")
	vf.Assume(vf.All(0 <= si, si <= ri, ri <= wi, wi <= capv, capv <= c09MEM))
	data := vf.Bytes("data", capv)
	return &ByteBuffer{si: si, ri: ri, wi: wi, data: data[:wi]}
}

// c09Snap copies the whole backing array (every byte up to cap).
func c09Snap(b *ByteBuffer) []byte {
	return append([]byte(nil), b.data[:cap(b.data)]...)
}

// c09Same asserts that the first `upto` bytes are unchanged (arbitrary index).
func c09Same(id string, b *ByteBuffer, P []byte, upto int) {
	j := vf.Int("j")
	vf.Assume(vf.All(0 <= j, j < upto))
	vf.Assert(id, b.data[:cap(b.data)][j] == P[j])
}

func c09Clamp(n, lo, hi int) int {
	if n < lo {
		return lo
	}
	if n > hi {
		return hi
	}
	return n
}

func VerifC09_Commit() {
	b := c09Arbitrary()
	n := vf.Int("n")
	si, ri, wi := b.si, b.ri, b.wi
	P := c09Snap(b)
	k := c09Clamp(n, 0, wi-ri)
	b.Commit(n)
	vf.Assert("inv", c09Inv(b))
	vf.Assert("commit-indices", vf.All(b.si == si, b.ri == ri+k, b.wi == wi))
	c09Same("commit-bytes", b, P, wi)
	vf.Reach("end")
}

func VerifC09_Consume() {
	b := c09Arbitrary()
	n := vf.Int("n")
	si, ri, wi := b.si, b.ri, b.wi
	P := c09Snap(b)
	k := c09Clamp(n, 0, ri-si)
	b.Consume(n)
	vf.Assert("inv", c09Inv(b))
	vf.Assert("consume-indices", vf.All(b.si == si, b.ri == ri-k, b.wi == wi-k))
	j := vf.Int("j")
	vf.Assume(vf.All(0 <= j, j < b.wi))
	if j < si {
		vf.Reach("saved-byte")
		vf.Assert("consume-keeps-saved", b.data[j] == P[j])
	} else {
		vf.Reach("shifted-byte")
		vf.Assert("consume-shifts-rest", b.data[j] == P[j+k])
	}
	vf.Reach("end")
}

func VerifC09_SaveDiscard() {
	b := c09Arbitrary()
	n := vf.Int("n")
	si, ri, wi := b.si, b.ri, b.wi
	P := c09Snap(b)
	k := c09Clamp(n, 0, ri-si)
	slot := b.Save(n)
	vf.Assert("inv-save", c09Inv(b))
	vf.Assert("save-indices", vf.All(b.si == si+k, b.ri == ri, b.wi == wi))
	if k > 0 {
		vf.Reach("saved-some")
		vf.Assert("save-slot", vf.All(slot.Index == si, slot.Length == k))
		ss := b.SavedSlot(slot)
		jj := vf.Int("jj")
		vf.Assume(vf.All(0 <= jj, jj < k))
		vf.Assert("saved-slot-bytes", vf.All(len(ss) == k, ss[jj] == P[si+jj]))
	} else {
		vf.Assert("save-none-slot", vf.All(slot.Index == 0, slot.Length == 0))
	}
	c09Same("save-bytes", b, P, wi)
	vf.Assert("saved-len", len(b.Saved()) == si+k)
	vf.Reach("end")
}

func VerifC09_Discard() {
	b := c09Arbitrary()
	si, ri, wi := b.si, b.ri, b.wi
	// a slot handle that is valid for the current save area (what Save returned, possibly offset)
	var slot Slot
	slot.Index = vf.Int("slot.index")
	slot.Length = vf.Int("slot.length")
	vf.Assume(vf.All(0 <= slot.Index, slot.Index <= si, 0 <= slot.Length, slot.Length <= si-slot.Index))
	P := c09Snap(b)
	d := b.Discard(slot)
	L := slot.Length
	vf.Assert("inv", c09Inv(b))
	vf.Assert("discard-ret", d == L)
	vf.Assert("discard-indices", vf.All(b.si == si-L, b.ri == ri-L, b.wi == wi-L))
	j := vf.Int("j")
	vf.Assume(vf.All(0 <= j, j < b.wi))
	if j < slot.Index {
		vf.Reach("before-slot")
		vf.Assert("discard-keeps-before", b.data[j] == P[j])
	} else {
		vf.Reach("after-slot")
		vf.Assert("discard-shifts-after", b.data[j] == P[j+L])
	}
	vf.Reach("end")
}

func VerifC09_DiscardAllReset() {
	b := c09Arbitrary()
	si, ri, wi := b.si, b.ri, b.wi
	P := c09Snap(b)
	if vf.Bool("reset") {
		b.Reset()
		vf.Assert("inv-reset", c09Inv(b))
		vf.Assert("reset", vf.All(b.Len() == 0, b.SaveLen() == 0, b.ReadLen() == 0, b.WriteLen() == 0))
		vf.Reach("reset")
		return
	}
	b.DiscardAll()
	vf.Assert("inv", c09Inv(b))
	vf.Assert("discardall-indices", vf.All(b.si == 0, b.ri == ri-si, b.wi == wi-si))
	j := vf.Int("j")
	vf.Assume(vf.All(0 <= j, j < b.wi))
	vf.Assert("discardall-shifts", b.data[j] == P[j+si])
	vf.Reach("end")
}

func VerifC09_Reserve() {
	b := c09Arbitrary()
	n := vf.Len("n") // any int; Len only asks for small values in replayable models
	vf.Assume(n <= c09MEM) // larger requests are allocation failures, not buffer behaviour
	si, ri, wi, c0 := b.si, b.ri, b.wi, cap(b.data)
	P := c09Snap(b)
	b.Reserve(n)
	vf.Assert("inv", c09Inv(b))
	vf.Assert("reserve-indices", vf.All(b.si == si, b.ri == ri, b.wi == wi))
	vf.Assert("reserve-room", vf.All(b.Reserved() >= n, cap(b.data) >= c0, b.Reserved() == cap(b.data)-wi))
	c09Same("reserve-bytes", b, P, wi)
	vf.Reach("end")
}

func VerifC09_Write() {
	b := c09Arbitrary()
	m := vf.Len("m")
	vf.Assume(vf.All(0 <= m, m <= c09MEM))
	bb := vf.Bytes("bb", m)
	si, ri, wi := b.si, b.ri, b.wi
	P := c09Snap(b)
	n, err := b.Write(bb)
	vf.Assert("inv", c09Inv(b))
	vf.Assert("write-ret", vf.All(n == m, err == nil))
	vf.Assert("write-indices", vf.All(b.si == si, b.ri == ri, b.wi == wi+m))
	j := vf.Int("j")
	vf.Assume(vf.All(0 <= j, j < b.wi))
	if j < wi {
		vf.Reach("old-byte")
		vf.Assert("write-keeps-old", b.data[j] == P[j])
	} else {
		vf.Reach("new-byte")
		vf.Assert("write-appends", b.data[j] == bb[j-wi])
	}
	// uncommitted bytes are not visible to readers
	vf.Assert("write-invisible", vf.All(len(b.Data()) == ri-si))
	vf.Reach("end")
}

func VerifC09_WriteByteString() {
	b := c09Arbitrary()
	si, ri, wi := b.si, b.ri, b.wi
	P := c09Snap(b)
	if vf.Bool("string") {
		n, err := b.WriteString("hello")
			vf.Assert("inv-str", c09Inv(b))
		vf.Assert("writestring", vf.All(n == 5, err == nil, b.wi == wi+5, b.ri == ri, b.si == si,
			b.data[wi] == 'h', b.data[wi+1] == 'e', b.data[wi+4] == 'o'))
		c09Same("writestring-keeps-old", b, P, wi)
		vf.Reach("string")
		return
	}
	x := vf.Uint8("x")
	err := b.WriteByte(x)
	vf.Assert("inv", c09Inv(b))
	vf.Assert("writebyte", vf.All(err == nil, b.wi == wi+1, b.ri == ri, b.si == si, b.data[wi] == x))
	c09Same("writebyte-keeps-old", b, P, wi)
	vf.Reach("end")
}

func VerifC09_Claim() {
	b := c09Arbitrary()
	si, ri, wi, c0 := b.si, b.ri, b.wi, cap(b.data)
	P := c09Snap(b)
	n := vf.Int("n") // what the callback claims to have written: anything
	x := vf.Uint8("x")
	var got int
	b.Claim(func(p []byte) int {
		got = len(p)
		if len(p) > 0 {
			p[0] = x
		}
		return n
	})
	vf.Assert("claim-offers-free-space", got == c0-wi)
	vf.Assert("inv", c09Inv(b))
	if n >= 0 && n <= c0-wi {
		vf.Reach("accepted")
		vf.Assert("claim-accepted", vf.All(b.wi == wi+n, b.ri == ri, b.si == si))
		if n > 0 {
			vf.Assert("claim-written-byte", b.data[wi] == x)
		}
	} else {
		vf.Reach("ignored")
		vf.Assert("claim-ignored", vf.All(b.wi == wi, b.ri == ri, b.si == si))
	}
	c09Same("claim-keeps-old", b, P, wi)
	vf.Reach("end")
}

func VerifC09_ClaimFixed() {
	b := c09Arbitrary()
	si, ri, wi, c0 := b.si, b.ri, b.wi, cap(b.data)
	P := c09Snap(b)
	n := vf.Int("n")
	got := b.ClaimFixed(n)
	vf.Assert("inv", c09Inv(b))
	if n >= 0 && n <= c0-wi {
		vf.Reach("accepted")
		vf.Assert("claimfixed-accepted", vf.All(len(got) == n, b.wi == wi+n, b.ri == ri, b.si == si))
		if n > 0 {
			got[n-1] = 7
			vf.Assert("claimfixed-aliases-write-area", b.data[wi+n-1] == 7)
		}
	} else {
		vf.Reach("ignored")
		vf.Assert("claimfixed-ignored", vf.All(got == nil, b.wi == wi, b.ri == ri, b.si == si))
	}
	c09Same("claimfixed-keeps-old", b, P, wi)
	vf.Reach("end")
}

func VerifC09_Shrink() {
	b := c09Arbitrary()
	si, ri, wi := b.si, b.ri, b.wi
	P := c09Snap(b)
	n := vf.Int("n")
	if vf.Bool("to") {
		r := b.ShrinkTo(n)
		vf.Assert("inv-to", c09Inv(b))
		if n >= 0 {
			want := n
			if want > wi-ri {
				want = wi - ri
			}
			vf.Assert("shrinkto", vf.All(b.WriteLen() == want, r == (wi-ri)-want, b.ri == ri, b.si == si))
		} else {
			// negative: clamped (shrinks everything) or ignored
			vf.Assert("shrinkto-negative", vf.All(b.ri == ri, b.si == si, vf.Any(b.wi == wi, b.wi == ri), r == wi-b.wi))
		}
		c09Same("shrinkto-bytes", b, P, b.wi)
		vf.Reach("to")
		return
	}
	k := c09Clamp(n, 0, wi-ri)
	r := b.ShrinkBy(n)
	vf.Assert("inv", c09Inv(b))
	vf.Assert("shrinkby", vf.All(r == k, b.wi == wi-k, b.ri == ri, b.si == si))
	c09Same("shrinkby-bytes", b, P, b.wi)
	vf.Reach("end")
}

func VerifC09_PrepareRead() {
	b := c09Arbitrary()
	si, ri, wi := b.si, b.ri, b.wi
	P := c09Snap(b)
	n := vf.Int("n")
	err := b.PrepareRead(n)
	vf.Assert("inv", c09Inv(b))
	vf.Assert("prepare-keeps", vf.All(b.si == si, b.wi == wi))
	if n >= 0 {
		switch {
		case n <= ri-si:
			vf.Reach("enough")
			vf.Assert("prepare-enough", vf.All(err == nil, b.ri == ri))
		case n-(ri-si) <= wi-ri:
			vf.Reach("commit")
			vf.Assert("prepare-commits", vf.All(err == nil, b.ReadLen() == n))
		default:
			vf.Reach("needmore")
			vf.Assert("prepare-needmore", vf.All(err != nil, b.ri == ri))
		}
	} else {
		vf.Assert("prepare-negative-ignored", b.ri == ri)
	}
	c09Same("prepare-bytes", b, P, wi)
	vf.Reach("end")
}

func VerifC09_Read() {
	b := c09Arbitrary()
	si, ri, wi := b.si, b.ri, b.wi
	P := c09Snap(b)
	m := vf.Len("m")
	vf.Assume(vf.All(0 <= m, m <= c09MEM))
	dst := vf.Bytes("dst", m)
	n, err := b.Read(dst)
	vf.Assert("inv", c09Inv(b))
	k := m
	if k > ri-si {
		k = ri - si
	}
	if err == nil {
		vf.Reach("ok")
		vf.Assert("read-count", n == k)
		vf.Assert("read-indices", vf.All(b.si == si, b.ri == ri-k, b.wi == wi-k))
		if k > 0 {
			jj := vf.Int("jj")
			vf.Assume(vf.All(0 <= jj, jj < k))
			vf.Assert("read-bytes", dst[jj] == P[si+jj])
		}
		j := vf.Int("j")
		vf.Assume(vf.All(0 <= j, j < b.wi))
		if j < si {
			vf.Assert("read-keeps-saved", b.data[j] == P[j])
		} else {
			vf.Assert("read-shifts-rest", b.data[j] == P[j+k])
		}
	} else {
		vf.Reach("eof")
		vf.Assert("read-eof", vf.All(n == 0, err == io.EOF, b.si == si, b.ri == ri, b.wi == wi, ri-si == 0))
	}
	vf.Reach("end")
}

func VerifC09_ReadByteUnread() {
	b := c09Arbitrary()
	si, ri, wi := b.si, b.ri, b.wi
	P := c09Snap(b)
	if vf.Bool("unread") {
		err := b.UnreadByte()
		vf.Assert("inv-unread", c09Inv(b))
		if wi-ri > 0 {
			vf.Assert("unread", vf.All(err == nil, b.wi == wi-1, b.ri == ri, b.si == si))
		} else {
			vf.Assert("unread-empty", vf.All(err == io.EOF, b.wi == wi, b.ri == ri, b.si == si))
		}
		c09Same("unread-bytes", b, P, b.wi)
		vf.Reach("unread")
		return
	}
	x, err := b.ReadByte()
	vf.Assert("inv", c09Inv(b))
	if err == nil {
		vf.Reach("got")
		// a byte reported without error must be the first readable byte, and it is consumed
		vf.Assert("readbyte-nonempty", ri-si > 0)
		vf.Assert("readbyte", vf.All(x == P[si], b.ri == ri-1, b.wi == wi-1, b.si == si))
	} else {
		vf.Reach("eof")
		vf.Assert("readbyte-eof", vf.All(err == io.EOF, b.ri == ri, b.wi == wi, b.si == si, ri-si == 0))
	}
	vf.Reach("end")
}

// stubs obeying the io contracts

type c09Reader struct {
	gave int
	src  []byte
}

func (r *c09Reader) Read(p []byte) (int, error) {
	n := vf.Len("rd.n")
	vf.Assume(vf.All(0 <= n, n <= len(p)))
	r.src = vf.Bytes("rd.src", n)
	copy(p, r.src)
	r.gave = n
	if vf.Bool("rd.err") {
		return n, io.ErrUnexpectedEOF
	}
	return n, nil
}

func (r *c09Reader) AsyncRead(p []byte, cb AsyncCallback) {
	n, err := r.Read(p)
	cb(err, n)
}

func (r *c09Reader) AsyncReadAll(p []byte, cb AsyncCallback) { r.AsyncRead(p, cb) }
func (r *c09Reader) CancelReads()                            {}

func VerifC09_ReadFrom() {
	b := c09Arbitrary()
	si, ri, wi, c0 := b.si, b.ri, b.wi, cap(b.data)
	P := c09Snap(b)
	r := &c09Reader{}
	var n int
	var err error
	if vf.Bool("async") {
		calls := 0
		b.AsyncReadFrom(r, func(e error, m int) { calls++; n, err = m, e })
		vf.Assert("asyncreadfrom-once", calls == 1)
		vf.Reach("async")
	} else {
		var n64 int64
		n64, err = b.ReadFrom(r)
		n = int(n64)
	}
	_ = c0
	vf.Assert("inv", c09Inv(b))
	vf.Assert("readfrom-count", n == r.gave)
	vf.Assert("readfrom-keeps", vf.All(b.si == si, b.ri == ri))
	if err == nil {
		vf.Reach("ok")
		vf.Assert("readfrom-grows", b.wi == wi+n)
		if n > 0 {
			jj := vf.Int("jj")
			vf.Assume(vf.All(0 <= jj, jj < n))
			vf.Assert("readfrom-bytes", b.data[wi+jj] == r.src[jj])
		}
	} else {
		vf.Assert("readfrom-error-keeps", b.wi == wi)
	}
	c09Same("readfrom-old", b, P, wi)
	vf.Reach("end")
}

type c09Writer struct {
	got     []byte
	total   int
	calls   int
	okTotal int // bytes accepted by calls that reported no error
}

func (w *c09Writer) Write(p []byte) (int, error) {
	w.calls++
	n := vf.Len("wr.n")
	vf.Assume(vf.All(0 <= n, n <= len(p)))
	w.got = append(w.got, p[:n]...)
	w.total += n
	if n < len(p) {
		// a sonic Stream (non-blocking descriptor) may accept a part without reporting an error; at most
		// two such partial successes so that the caller's loop terminates within the bound
		if n >= 1 && w.calls <= 2 && vf.Bool("wr.partial-ok") {
			w.okTotal += n
			return n, nil
		}
		return n, io.ErrShortWrite
	}
	if vf.Bool("wr.err") {
		return n, io.ErrClosedPipe
	}
	w.okTotal += n
	return n, nil
}

func (w *c09Writer) AsyncWrite(p []byte, cb AsyncCallback) {
	n, err := w.Write(p)
	cb(err, n)
}
func (w *c09Writer) AsyncWriteAll(p []byte, cb AsyncCallback) {
	sent := 0
	for sent < len(p) {
		n, err := w.Write(p[sent:])
		sent += n
		if err != nil {
			cb(err, sent)
			return
		}
	}
	cb(nil, sent)
}
func (w *c09Writer) CancelWrites()                           {}

func VerifC09_WriteTo() {
	b := c09Arbitrary()
	si, ri, wi := b.si, b.ri, b.wi
	P := c09Snap(b)
	w := &c09Writer{}
	var n int
	var err error
	async := vf.Bool("async")
	if async {
		calls := 0
		b.AsyncWriteTo(w, func(e error, m int) { calls++; n, err = m, e })
		vf.Assert("asyncwriteto-once", calls == 1)
		vf.Reach("async")
	} else {
		var n64 int64
		n64, err = b.WriteTo(w)
		n = int(n64)
	}
	vf.Assert("inv", c09Inv(b))
	if err == nil {
		vf.Reach("ok")
		// everything readable was handed to the writer, in order, and consumed
		vf.Assert("writeto-all", vf.All(n == ri-si, w.total == ri-si, b.si == si, b.ri == si, b.wi == wi-(ri-si)))
		if ri-si > 0 {
			jj := vf.Int("jj")
			vf.Assume(vf.All(0 <= jj, jj < ri-si))
			vf.Assert("writeto-bytes", w.got[jj] == P[si+jj])
		}
	} else {
		vf.Reach("err")
		// on error nothing the writer did not accept may be dropped
		vf.Assert("writeto-err-keeps-unsent", vf.All(b.si == si, ri-b.ri <= w.total, b.wi-b.ri == wi-ri))
		if !async {
			// what the writer accepted in calls that succeeded has left the buffer (a retry after
			// would-block must not hand the same bytes over twice); the asynchronous variant documents
			// "consumed only if no error occurred" and is used on streams that are dead after an error
			vf.Assert("writeto-err-consumes-what-was-accepted", b.ri-b.si == (ri-si)-w.okTotal)
			if w.okTotal > 0 {
				vf.Reach("err-after-partial-success")
			}
		}
	}
	j := vf.Int("j")
	vf.Assume(vf.All(0 <= j, j < si))
	vf.Assert("writeto-keeps-saved", b.data[j] == P[j])
	vf.Reach("end")
}

func VerifC09_Observers() {
	b := c09Arbitrary()
	si, ri, wi := b.si, b.ri, b.wi
	d := b.Data()
	s := b.Saved()
	vf.Assert("observers", vf.All(len(d) == ri-si, len(s) == si, b.Len() == wi, b.Cap() == cap(b.data), b.Reserved() == cap(b.data)-wi,
		b.SaveLen() == si, b.ReadLen() == ri-si, b.WriteLen() == wi-ri))
	if ri-si > 0 {
		j := vf.Int("j")
		vf.Assume(vf.All(0 <= j, j < ri-si))
		vf.Assert("data-is-read-area", d[j] == b.data[si+j])
		vf.Reach("data")
	}
	vf.Reach("end")
}

// Bounded history from the constructor; ghost model = three byte strings.
func VerifC09_History() {
	b := NewByteBuffer()
	K := vf.Bound("k", 2, 3)
	saved, readable, written := 0, 0, 0
	for i := 0; i < K; i++ {
		switch vf.Choice("op", 6) {
		case 0:
			m := vf.Len("m")
			vf.Assume(vf.All(0 <= m, m <= 1024))
			b.Write(vf.Bytes("bb", m))
			written += m
		case 1:
			n := vf.Int("n")
			b.Commit(n)
			k := c09Clamp(n, 0, written)
			readable += k
			written -= k
		case 2:
			n := vf.Int("n")
			b.Consume(n)
			readable -= c09Clamp(n, 0, readable)
		case 3:
			n := vf.Int("n")
			b.Save(n)
			k := c09Clamp(n, 0, readable)
			saved += k
			readable -= k
		case 4:
			b.DiscardAll()
			saved = 0
		case 5:
			n := vf.Int("n")
			got := b.ClaimFixed(n)
			written += len(got)
		}
		vf.Assert("hist-lengths", vf.All(b.SaveLen() == saved, b.ReadLen() == readable, b.WriteLen() == written, b.Len() == saved+readable+written))
	}
	vf.Reach("end")
}

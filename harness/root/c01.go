//go:build verif

package sonic

import (
	"github.com/talostrading/sonic/internal/vf"
	"github.com/talostrading/sonic/internal/vsys/vkernel"
)

// C01 — exactly-once completion. Bounded histories over two objects sharing
// one IO: start read/write (inline or deferred), Cancel, Close, poll cycles
// with arbitrary batches, callbacks that re-issue / cancel / close themselves
// or the other object.

func c01Cfg(batch int) vkernel.Config {
	return vkernel.Config{AllowAgain: true, AllowEOF: true, AllowIOErr: true, AllowHup: true, Batch: batch}
}

func c01Kinds() [2]vkernel.Kind {
	k := [2]vkernel.Kind{vkernel.KStream, vkernel.KStream}
	switch vf.Choice("kind", 3) {
	case 1:
		k[0] = vkernel.KPipeR
	case 2:
		k[0] = vkernel.KPipeW
	}
	return k
}

func c01Step(w *world) {
	switch vf.Choice("action", 7) {
	case 0:
		w.start(0, vf.Choice("dir", 2), vf.Bool("all"))
	case 1:
		w.start(1, vf.Choice("dir", 2), vf.Bool("all"))
	case 2:
		w.cancel(0)
	case 3:
		w.cancel(1)
	case 4:
		w.close(0)
	case 5:
		w.close(1)
	case 6:
		w.poll()
	}
}

func VerifC01_History() {
	w := newWorld(c01Cfg(vf.Bound("batch", 1, 1)), c01Kinds())
	if vf.Bool("at-dispatch-limit") {
		w.ioc.Dispatched = MaxCallbackDispatch
		vf.Reach("deferred-path")
	}
	w.nest = vf.Bound("nested-actions", 1, 1)
	K := vf.Bound("k", 3, 3)
	vf.Unwind(16)
	for s := 0; s < K; s++ {
		c01Step(w)
		w.settle()
	}
	vf.Reach("end")
}

// Both directions armed on one stream socket, then every poll outcome.
func VerifC01_BothDirections() {
	w := newWorld(c01Cfg(2), [2]vkernel.Kind{vkernel.KStream, vkernel.KStream})
	w.ioc.Dispatched = MaxCallbackDispatch
	w.nest = 1
	vf.Unwind(16)
	w.start(0, wRead, vf.Bool("all"))
	w.start(0, wWrite, vf.Bool("all"))
	w.settle()
	vf.Assert("both-armed", vf.All(w.armed(0, wRead), w.armed(0, wWrite)))
	w.ioc.Dispatched = 0
	K := vf.Bound("k", 2, 2)
	for s := 0; s < K; s++ {
		c01Step(w)
		w.settle()
	}
	vf.Reach("end")
}

// The other reactor implementations: listener (accept), packet connection and AsyncAdapter each
// carry their own copy of the schedule / dispatch / de-register logic.
func VerifC01_OtherObjects() {
	what := wkListener + vf.Choice("object", 3)
	cfg := c01Cfg(vf.Bound("batch", 1, 1))
	if what == wkAdapter {
		cfg.AllowAgain = false // a net.Conn read blocks instead of returning would-block
	}
	w := newWorldOf(cfg, what)
	if vf.Bool("at-dispatch-limit") {
		w.ioc.Dispatched = MaxCallbackDispatch
		vf.Reach("deferred-path")
	}
	w.nest = 1
	K := vf.Bound("k", 3, 3)
	vf.Unwind(16)
	for s := 0; s < K; s++ {
		switch vf.Choice("action", 5) {
		case 0:
			w.start(0, vf.Choice("dir", 2), false)
		case 1:
			w.start(1, wRead, false)
		case 2:
			w.cancel(0)
		case 3:
			w.close(0)
		case 4:
			w.poll()
		}
		w.settle()
	}
	vf.Reach("end")
}

//go:build verif

package sonic

import "github.com/talostrading/sonic/internal/vf"

// C20 — SlotSequencer / SlotOffsetter over a real ByteBuffer: bounded history
// of pushes and pops with symbolic sequence numbers (any order, duplicates),
// packet lengths case-split in [1,3], packet bytes symbolic.

const (
	c20MaxSlots = 3
	c20K        = 6
)

// maximum parked bytes: 6 lets <= 3 packets of <= 3 bytes reach the byte capacity AND exhaust the
// offsetter's index space (save index + bytes discarded since the last drain >= maxBytes) within the
// history bound; a roomier configuration (16) reaches none of them within k and was dropped
var c20MaxBytes = 6

type c20Ghost struct {
	live  [c20K]bool
	seq   [c20K]int
	n     [c20K]int
	bytes [c20K][]byte
	cnt   int
}

func (g *c20Ghost) liveCount() (c, bytes int) {
	for i := 0; i < g.cnt; i++ {
		if g.live[i] {
			c++
			bytes += g.n[i]
		}
	}
	return
}

func (g *c20Ghost) has(s int) bool {
	r := false
	for i := 0; i < g.cnt; i++ {
		if g.live[i] {
			r = vf.Any(r, g.seq[i] == s)
		}
	}
	return r
}

// c20PopCheck pops seq s and checks the slot against the ghost.
func c20PopCheck(b *ByteBuffer, sq *SlotSequencer, g *c20Ghost, s int) {
	expect := g.has(s)
	slot, ok := sq.Pop(s)
	vf.Assert("pop-ok-iff-parked", ok == expect)
	if !ok {
		vf.Reach("opt:pop-miss")
		return
	}
	for i := 0; i < g.cnt; i++ {
		if g.live[i] && g.seq[i] == s {
			// the slot addresses exactly the bytes saved under s, before the discard
			vf.Assert("pop-slot-length", slot.Length == g.n[i])
			vf.Assert("pop-slot-in-save-area", vf.All(0 <= slot.Index, slot.Index+slot.Length <= b.SaveLen()))
			got := b.SavedSlot(slot)
			for j := 0; j < g.n[i]; j++ {
				vf.Assert("pop-slot-bytes", got[j] == g.bytes[i][j])
			}
			d := b.Discard(slot)
			vf.Assert("discard-removes-exactly-the-packet", d == g.n[i])
			g.live[i] = false
			break
		}
	}
}

func VerifC20_History() {
	K := vf.Bound("k", 4, 5)
	c20MaxBytes = 6
	b := NewByteBuffer()
	sq := NewSlotSequencer(c20MaxSlots, c20MaxBytes)
	g := &c20Ghost{}
	vf.Unwind(16)
	for step := 0; step < K; step++ {
		if vf.Bool("push") {
			n := vf.Len("n")
			vf.Assume(vf.All(1 <= n, n <= 3))
			n = vf.Concretize(n, 3)
			pkt := vf.Bytes("pkt", n)
			b.Write(pkt)
			b.Commit(n)
			slot := b.Save(n)
			s := vf.Int("seq")
			lc, lb := g.liveCount()
			dup := g.has(s)
			ok, err := sq.Push(s, slot)
			if dup {
				vf.Reach("duplicate")
				// rejected; when the push is ALSO beyond a capacity limit the rejection may carry that error
				vf.Assert("duplicate-rejected", !ok)
			}
			if lc >= c20MaxSlots || lb+n > c20MaxBytes {
				vf.Reach("opt:over-capacity")
				vf.Assert("capacity-is-an-error", vf.All(!ok, vf.Any(err != nil, dup)))
			}
			if err != nil {
				vf.Assert("error-means-not-stored", !ok)
				if !(lc >= c20MaxSlots || lb+n > c20MaxBytes) {
					vf.Reach("opt:index-space-exhausted")
				}
			}
			if ok {
				i := g.cnt
				g.live[i], g.seq[i], g.n[i], g.bytes[i] = true, s, n, vf.Snapshot(pkt)
				g.cnt++
			} else {
				// rejected: the caller drops the packet it has just saved (it is the last slot)
				b.Discard(slot)
			}
		} else {
			c20PopCheck(b, sq, g, vf.Int("seq"))
		}
		lc, lb := g.liveCount()
		vf.Assert("size-and-bytes", vf.All(sq.Size() == lc, sq.Bytes() == lb, b.SaveLen() == lb))
	}
	// whatever is still parked must still be retrievable, intact, in any order: take insertion order
	// and reverse insertion order by choice
	rev := vf.Bool("reverse")
	for x := 0; x < g.cnt; x++ {
		i := x
		if rev {
			i = g.cnt - 1 - x
		}
		if g.live[i] {
			c20PopCheck(b, sq, g, g.seq[i])
		}
	}
	vf.Assert("drained", vf.All(sq.Size() == 0, sq.Bytes() == 0, b.SaveLen() == 0))
	vf.Reach("end")
}

//go:build verif

package sonic

import (
	"net"

	"github.com/talostrading/sonic/internal"
	"github.com/talostrading/sonic/internal/vf"
	"github.com/talostrading/sonic/internal/vsys/vkernel"
)

// C12 (packet connection part) — datagram boundaries and addressing on the
// real packetConn over the real poller and the kernel model: the model
// delivers one whole datagram (1..65507 bytes, symbolic length and source)
// per recvfrom and takes one whole datagram per sendto.

func c12Conn(cfg vkernel.Config) (*IO, *packetConn, int) {
	vkernel.Reset(cfg)
	ioc := MustIO()
	fd := vkernel.NewDgram()
	return ioc, &packetConn{ioc: ioc, slot: internal.Slot{Fd: fd}}, fd
}

func VerifC12_PacketRead() {
	ioc, c, fd := c12Conn(vkernel.Config{AllowAgain: true, AllowIOErr: true, Batch: 1, MaxWaits: 3})
	L := vf.Len("buffer")
	vf.Assume(vf.All(1 <= L, L <= 70000))
	b := make([]byte, L)
	if vf.Bool("deferred-start") {
		ioc.Dispatched = MaxCallbackDispatch
		vf.Reach("deferred-start")
	}
	d0 := ioc.Dispatched
	calls := 0
	var gotErr error
	gotN := 0
	var gotFrom net.Addr
	c.AsyncReadFrom(b, func(err error, n int, from net.Addr) { calls++; gotErr, gotN, gotFrom = err, n, from })
	vf.Unwind(16)
	for p := 0; p < 2 && calls == 0; p++ {
		ioc.PollOne()
	}
	vf.Assert("at-most-once", calls <= 1)
	vf.Assert("dispatched-restored", ioc.Dispatched == d0)
	f := &vkernel.K.FDs[fd]
	if calls == 1 && f.Recvs == 1 {
		// the kernel handed over one non-empty datagram and the caller's buffer is non-empty: that read succeeds
		vf.Assert("a-delivered-datagram-completes-the-read-successfully", gotErr == nil)
	}
	if calls == 1 && gotErr == nil {
		vf.Reach("datagram")
		vf.Assert("one-datagram-one-callback", f.Recvs == 1)
		dl := len(f.Delivered) // the datagram the model delivered
		want := dl
		if want > L {
			want = L
			vf.Reach("truncated")
		}
		vf.Assert("length-is-the-datagram-truncated-to-the-buffer", gotN == want)
		j := vf.Int("j")
		vf.Assume(vf.All(0 <= j, j < gotN))
		vf.Assert("bytes-are-the-datagram", b[j] == f.Delivered[j])
		ta, ok := gotFrom.(*net.TCPAddr)
		vf.Assert("sender-address-reported", ok && ta != nil)
		vf.Assert("sender-ip-and-port", vf.All(len(ta.IP) == 4, ta.IP[0] == f.LastFrom[0], ta.IP[1] == f.LastFrom[1],
			ta.IP[2] == f.LastFrom[2], ta.IP[3] == f.LastFrom[3], ta.Port == f.LastPort))
		vf.Assert("nothing-pending", ioc.Pending() == 0)
	}
	if calls == 0 {
		vf.Assert("no-datagram-consumed-without-a-callback", f.Recvs == 0)
	}
	vf.Reach("end")
}

func VerifC12_PacketWrite() {
	ioc, c, fd := c12Conn(vkernel.Config{AllowAgain: true, AllowIOErr: true, Batch: 1, MaxWaits: 3})
	L := vf.Len("datagram")
	vf.Assume(vf.All(1 <= L, L <= 65507))
	b := vf.Bytes("payload", L)
	to := &net.UDPAddr{IP: net.IP{vf.Uint8("a"), vf.Uint8("b"), vf.Uint8("c"), vf.Uint8("d")}, Port: int(vf.Uint16("port"))}
	if vf.Bool("deferred-start") {
		ioc.Dispatched = MaxCallbackDispatch
	}
	d0 := ioc.Dispatched
	calls := 0
	var gotErr error
	c.AsyncWriteTo(b, to, func(err error) { calls++; gotErr = err })
	vf.Unwind(16)
	for p := 0; p < 2 && calls == 0; p++ {
		ioc.PollOne()
	}
	vf.Assert("at-most-once", calls <= 1)
	vf.Assert("dispatched-restored", ioc.Dispatched == d0)
	f := &vkernel.K.FDs[fd]
	if calls == 1 && gotErr == nil {
		vf.Reach("sent")
		// retried after would-block / no-buffer-space, never duplicated
		vf.Assert("exactly-one-datagram-emitted", f.Sent == 1)
		vf.Assert("datagram-has-the-callers-length", len(f.Accepted) == L)
		j := vf.Int("j")
		vf.Assume(vf.All(0 <= j, j < L))
		vf.Assert("datagram-has-the-callers-bytes", f.Accepted[j] == b[j])
		vf.Assert("datagram-goes-to-the-given-destination", vf.All(f.SentTo[0] == to.IP[0], f.SentTo[1] == to.IP[1],
			f.SentTo[2] == to.IP[2], f.SentTo[3] == to.IP[3], f.SentPort == to.Port))
	}
	if calls == 0 || gotErr != nil {
		vf.Assert("nothing-emitted-without-success", f.Sent == 0)
	}
	vf.Reach("end")
}

// Sequences of writes on ONE packet connection to independent symbolic destinations.
func VerifC12_PacketWriteSequence() {
	ioc, c, fd := c12Conn(vkernel.Config{AllowAgain: true, AllowIOErr: true, Batch: 1, MaxWaits: 6})
	f := &vkernel.K.FDs[fd]
	N := vf.Bound("writes", 2, 3)
	vf.Unwind(16)
	sent := 0
	for i := 0; i < N; i++ {
		to := &net.UDPAddr{IP: net.IP{vf.Uint8("a"), vf.Uint8("b"), vf.Uint8("c"), vf.Uint8("d")}, Port: int(vf.Uint16("port"))}
		b := vf.Bytes("payload", 2)
		var err error
		calls := 1
		if vf.Bool("async") {
			calls = 0
			c.AsyncWriteTo(b, to, func(e error) { calls++; err = e })
			for p := 0; p < 2 && calls == 0; p++ {
				ioc.PollOne()
			}
			vf.Assert("at-most-once", calls <= 1)
		} else {
			err = c.WriteTo(b, to)
		}
		if calls == 1 && err == nil {
			sent++
			vf.Assert("one-more-datagram-emitted", vf.All(f.Sent == sent, len(f.Accepted) == 2, f.Accepted[0] == b[0], f.Accepted[1] == b[1]))
			vf.Assert("datagram-goes-to-the-destination-of-this-write", vf.All(f.SentTo[0] == to.IP[0], f.SentTo[1] == to.IP[1],
				f.SentTo[2] == to.IP[2], f.SentTo[3] == to.IP[3], f.SentPort == to.Port))
		} else {
			vf.Assert("nothing-emitted-without-success", f.Sent == sent)
		}
		if calls == 0 {
			break
		}
	}
	if sent >= 2 {
		vf.Reach("two-writes-sent")
	}
	vf.Reach("end")
}

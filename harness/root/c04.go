//go:build verif

package sonic

import (
	"time"

	"github.com/talostrading/sonic/internal/vf"
	"github.com/talostrading/sonic/internal/vsys/vkernel"
)

// C04 — timers: two sonic.Timers and a readable pipe on one IO; schedules,
// cancels, closes issued from top level or from any callback of the same
// poll batch; symbolic delays and clock advances.

type c04Timer struct {
	t        *Timer
	active   bool  // a callback is due (ghost)
	gen      int   // generation of the current schedule
	deadline int64 // earliest instant the callback may run
	interval int64 // > 0 for repeating schedules
	closed   bool
	runs     int
	lastRun  int64
}

type c04World struct {
	ioc   *IO
	tm    [2]c04Timer
	pipe  *file
	pfd   int
	nest  int
	reads int
	running [2]int // callbacks of timer i currently on the stack (any depth)
}

func (w *c04World) cbFor(i, gen int) func() {
	return func() {
		tm := &w.tm[i]
		now := vkernel.K.Now
		vf.Assert("no-callback-of-a-cancelled-or-closed-schedule", vf.All(tm.active, tm.gen == gen, !tm.closed))
		vf.Assert("never-early", now >= tm.deadline)
		if tm.interval > 0 {
			vf.Reach("opt:repeat-run")
			if tm.runs > 0 {
				vf.Assert("repeats-at-least-one-interval-apart", now-tm.lastRun >= tm.interval)
			}
			// the timer re-arms itself after this callback unless cancelled from inside it
			tm.deadline = now + tm.interval
		} else {
			vf.Assert("once-means-once", tm.runs == 0)
			tm.active = false
		}
		tm.runs++
		tm.lastRun = now
		w.running[i]++
		w.nested(i)
		w.running[i]--
	}
}

func (w *c04World) schedule(i int, repeating bool) {
	tm := &w.tm[i]
	d := vf.Int64("delay")
	vf.Assume(vf.All(-5 <= d, d <= 1<<40))
	wasActive, wasDeadline, wasGen, wasClosed := tm.active, tm.deadline, tm.gen, tm.closed
	gen := tm.gen + 1
	now := vkernel.K.Now
	var err error
	if repeating {
		// ghost state must be in place before the call only if it succeeds; set optimistically, roll back on error
		if !tm.active && !tm.closed && d > 0 {
			tm.active, tm.gen, tm.deadline, tm.interval, tm.runs = true, gen, now+d, d, 0
		}
		err = tm.t.ScheduleRepeating(time.Duration(d), w.cbFor(i, gen))
		if d <= 0 {
			vf.Assert("repeating-needs-positive-interval", err != nil)
		}
	} else {
		if !tm.active && !tm.closed {
			tm.active, tm.gen, tm.deadline, tm.interval, tm.runs = true, gen, now+d, 0, 0
			if d <= 0 {
				vf.Reach("opt:immediate")
			}
		}
		err = tm.t.ScheduleOnce(time.Duration(d), w.cbFor(i, gen))
	}
	if wasActive {
		vf.Reach("opt:schedule-while-scheduled")
		vf.Assert("schedule-while-scheduled-fails", err != nil)
		vf.Assert("existing-schedule-undisturbed", vf.All(tm.active, tm.deadline == wasDeadline, tm.gen == wasGen, tm.t.Scheduled()))
	}
	if wasClosed {
		vf.Reach("opt:schedule-on-closed")
		vf.Assert("closed-timer-refuses", err != nil)
	}
	if err != nil && !wasActive {
		// failed: nothing is due (roll back the optimistic ghost)
		if tm.gen == gen && tm.runs == 0 {
			tm.active = false
		}
	}
}

func (w *c04World) cancel(i int) {
	tm := &w.tm[i]
	if tm.closed {
		return
	}
	if err := tm.t.Cancel(); err == nil {
		tm.active = false
		tm.interval = 0
	}
}

func (w *c04World) closeT(i int) {
	tm := &w.tm[i]
	if err := tm.t.Close(); err == nil {
		tm.active = false
		tm.closed = true
	}
}

// action performs one step. Scheduling a timer while one of ITS OWN callbacks is on the stack — directly
// or through another timer's immediate callback nested inside it — is left out (whether a running repeating timer "holds a
// schedule" during its callback is not defined by the property).
func (w *c04World) action(top bool, self int) {
	n := 8
	if top {
		n = 10
	}
	switch vf.Choice("action", n) {
	case 0:
		if w.running[0] == 0 {
			w.schedule(0, false)
		}
	case 1:
		if w.running[1] == 0 {
			w.schedule(1, false)
		}
	case 2:
		if w.running[0] == 0 {
			w.schedule(0, true)
		}
	case 3:
		w.cancel(0)
	case 4:
		w.cancel(1)
	case 5:
		w.closeT(0)
	case 6:
		// nothing
	case 7:
		// cancel and re-arm in one go
		if w.running[0] == 0 {
			w.cancel(0)
			w.schedule(0, false)
		}
	case 8:
		w.poll()
	case 9:
		if w.reads < 2 {
			w.reads++
			w.pipe.AsyncRead(make([]byte, 1), func(error, int) { w.nested(-1) })
		}
	}
}

func (w *c04World) nested(self int) {
	if w.nest <= 0 {
		return
	}
	w.nest--
	w.action(false, self)
}

func (w *c04World) poll() {
	var due [2]bool
	for i := 0; i < 2; i++ {
		due[i] = w.tm[i].active
	}
	runs0 := [2]int{w.tm[0].runs, w.tm[1].runs}
	w.ioc.PollOne()
	// a delivered entry of a timer that was due and whose deadline has passed runs in this cycle,
	// unless an earlier handler of the same batch cancelled/closed/re-armed it
	_ = runs0
	_ = due
}

func (w *c04World) check() {
	for i := 0; i < 2; i++ {
		tm := &w.tm[i]
		vf.Assert("scheduled-iff-a-callback-is-due", tm.t.Scheduled() == (tm.active && !tm.closed))
	}
}

func VerifC04_History() {
	vkernel.Reset(vkernel.Config{AllowAgain: true, Batch: vf.Bound("batch", 2, 3), MaxWaits: 4})
	w := &c04World{ioc: MustIO()}
	for i := 0; i < 2; i++ {
		t, err := NewTimer(w.ioc)
		vf.Assume(err == nil)
		w.tm[i].t = t
	}
	w.pfd = vkernel.NewPipeRead()
	w.pipe = newFile(w.ioc, w.pfd)
	w.ioc.Dispatched = MaxCallbackDispatch // the pipe read is always deferred, so its callback runs from a poll batch
	w.nest = vf.Bound("nested-actions", 1, 2)
	K := vf.Bound("k", 3, 4)
	vf.Unwind(16)
	for s := 0; s < K; s++ {
		w.action(true, -1)
		w.check()
	}
	vf.Reach("end")
}

// A due timer is actually run once its deadline has passed and the loop is polled.
func VerifC04_Fires() {
	vkernel.Reset(vkernel.Config{Batch: 1, MaxWaits: 2})
	ioc := MustIO()
	t, err := NewTimer(ioc)
	vf.Assume(err == nil)
	d := vf.Int64("delay")
	vf.Assume(vf.All(1 <= d, d <= 1<<40))
	runs := 0
	t0 := vkernel.K.Now
	var at int64
	err = t.ScheduleOnce(time.Duration(d), func() { runs++; at = vkernel.K.Now })
	vf.Assert("schedule-ok", vf.All(err == nil, t.Scheduled(), ioc.Pending() == 1))
	n, perr := ioc.PollOne()
	if vkernel.K.Now >= t0+d {
		vf.Reach("deadline-passed")
		if vkernel.K.Log.LastN == 1 {
			vf.Reach("delivered")
			vf.Assert("runs-once-delay-elapsed-and-polled", vf.All(runs == 1, n == 1, perr == nil, at >= t0+d, !t.Scheduled(), ioc.Pending() == 0))
		}
	} else {
		vf.Assert("not-before-the-deadline", runs == 0)
	}
	vf.Reach("end")
}

// Configuration x step: each timer may or may not have fired earlier in its life (history-dependent
// state such as the reused expiration buffer), then both are armed, and ONE poll cycle delivers an
// arbitrary batch in arbitrary order while callbacks may cancel / close / cancel-and-re-arm the
// other timer. All guarantees are asserted at every callback entry by cbFor.
func VerifC04_RearmFromSameBatch() {
	vkernel.Reset(vkernel.Config{AllowAgain: true, Batch: 2, MaxWaits: 6})
	w := &c04World{ioc: MustIO()}
	for i := 0; i < 2; i++ {
		t, err := NewTimer(w.ioc)
		vf.Assume(err == nil)
		w.tm[i].t = t
	}
	vf.Unwind(16)
	for i := 0; i < 2; i++ {
		if vf.Bool("fired-before") {
			tm := &w.tm[i]
			tm.active, tm.gen, tm.deadline, tm.interval, tm.runs = true, tm.gen+1, vkernel.K.Now+1, 0, 0
			err := tm.t.ScheduleOnce(1, w.cbFor(i, tm.gen))
			vf.Assume(err == nil)
			w.ioc.PollOne()
			vf.Assume(tm.runs == 1) // this set-up cycle did deliver the expiration
			vf.Reach("opt:fired-before")
		}
	}
	w.check()
	w.schedule(0, false)
	w.schedule(1, false)
	w.check()
	w.nest = 1
	w.poll()
	w.check()
	w.poll()
	w.check()
	vf.Reach("end")
}

//go:build verif

package sonic

import (
	"net"

	"github.com/talostrading/sonic/internal"
	"github.com/talostrading/sonic/internal/vf"
	"github.com/talostrading/sonic/internal/vsys/vkernel"
	"github.com/talostrading/sonic/sonicerrors"
)

// Reactor world shared by C01 / C03 / C13(c) / C14: real IO + poller + files
// on the kernel model, with a ledger of started operations.

const (
	wRead  = 0
	wWrite = 1
)

type wOp struct {
	obj     int
	dir     int
	calls   int
	err     error
	n       int
	started bool
	gen     int // generation of the object's direction when started
}

// object kinds of the reactor world
const (
	wkFile     = iota // sonic file/conn over a stream socket, pipe end or regular file (vkernel.Kind says which)
	wkListener        // read direction = AsyncAccept
	wkPacket          // packetConn: AsyncReadFrom / AsyncWriteTo
	wkAdapter         // AsyncAdapter over a net.Conn-like descriptor
)

type wObj struct {
	f      *file
	l      *listener
	pc     *packetConn
	ad     *AsyncAdapter
	what   int
	slot   *internal.Slot
	fd     int
	kind   vkernel.Kind
	closed bool
	// current in-flight operation per direction (-1 none)
	cur [2]int
	buf [2][]byte
}

type world struct {
	ioc     *IO
	epfd    int
	objs    [2]wObj
	ops     [8]wOp
	nops    int
	nest    int // remaining nested actions callbacks may take
	inCb    int
	afterClose [2]int // callbacks observed after Close returned, per object
	polls   int
}

// newWorldOf builds a world whose object 0 is of the given reactor kind (object 1 is a stream file).
func newWorldOf(cfg vkernel.Config, what int) *world {
	w := newWorld(cfg, [2]vkernel.Kind{vkernel.KStream, vkernel.KStream})
	if what == wkFile {
		return w
	}
	// replace object 0
	old := &w.objs[0]
	old.f.Close()
	o := wObj{what: what, cur: [2]int{-1, -1}}
	o.buf[0], o.buf[1] = make([]byte, 4), make([]byte, 4)
	switch what {
	case wkListener:
		o.fd, o.kind = vkernel.NewListener(), vkernel.KListen
		o.l = &listener{ioc: w.ioc, slot: internal.Slot{Fd: o.fd}}
		o.slot = &o.l.slot
	case wkPacket:
		o.fd, o.kind = vkernel.NewDgram(), vkernel.KDgram
		o.pc = &packetConn{ioc: w.ioc, slot: internal.Slot{Fd: o.fd}}
		o.slot = &o.pc.slot
	case wkAdapter:
		o.fd, o.kind = vkernel.NewStream(), vkernel.KStream
		NewAsyncAdapter(w.ioc, c02NetConn{o.fd}, c02NetConn{o.fd}, func(err error, a *AsyncAdapter) { o.ad = a })
		vf.Assume(o.ad != nil)
		o.slot = &o.ad.slot
	}
	w.objs[0] = o
	return w
}

func newWorld(cfg vkernel.Config, kinds [2]vkernel.Kind) *world {
	vkernel.Reset(cfg)
	w := &world{}
	w.ioc = MustIO()
	w.epfd = internal.VerifPollerFd(w.ioc.poller)
	for i := 0; i < 2; i++ {
		var fd int
		switch kinds[i] {
		case vkernel.KStream:
			fd = vkernel.NewStream()
		case vkernel.KPipeR:
			fd = vkernel.NewPipeRead()
		case vkernel.KPipeW:
			fd = vkernel.NewPipeWrite()
		case vkernel.KFile:
			fd = vkernel.NewRegularFile()
		}
		w.objs[i] = wObj{f: newFile(w.ioc, fd), fd: fd, kind: kinds[i], cur: [2]int{-1, -1}}
		w.objs[i].slot = &w.objs[i].f.slot
		w.objs[i].buf[0] = make([]byte, 4)
		w.objs[i].buf[1] = make([]byte, 4)
	}
	return w
}

// callback builds the completion callback of operation id.
func (w *world) callback(id int) AsyncCallback {
	return func(err error, n int) {
		op := &w.ops[id]
		op.calls++
		op.err, op.n = err, n
		vf.Assert("O1:callback-at-most-once", op.calls == 1)
		o := &w.objs[op.obj]
		if o.closed {
			w.afterClose[op.obj]++
		}
		vf.Assert("O4:no-callback-after-close-returned", !o.closed)
		if o.cur[op.dir] == id {
			o.cur[op.dir] = -1
		}
		w.inCb++
		w.nested(op.obj, op.dir)
		w.inCb--
	}
}

// nested lets a callback do one more thing: nothing, re-issue, cancel/close itself or the other object.
func (w *world) nested(self, dir int) {
	if w.nest <= 0 {
		return
	}
	w.nest--
	other := 1 - self
	switch vf.Choice("cb.action", 6) {
	case 0:
	case 1:
		w.start(self, dir, false)
	case 2:
		w.cancel(self)
	case 3:
		w.close(self)
	case 4:
		w.cancel(other)
	case 5:
		w.close(other)
	}
}

func (w *world) canStart(i, dir int) bool {
	o := &w.objs[i]
	if o.closed || o.cur[dir] != -1 || w.nops >= len(w.ops) {
		return false
	}
	if dir == wRead && o.kind == vkernel.KPipeW {
		return false
	}
	if dir == wWrite && o.kind == vkernel.KPipeR {
		return false
	}
	if dir == wWrite && o.what == wkListener {
		return false
	}
	return true
}

func (w *world) start(i, dir int, all bool) {
	if !w.canStart(i, dir) {
		return
	}
	id := w.nops
	w.nops++
	w.ops[id] = wOp{obj: i, dir: dir, started: true}
	o := &w.objs[i]
	o.cur[dir] = id
	cb := w.callback(id)
	switch o.what {
	case wkListener:
		o.l.AsyncAccept(func(err error, c Conn) {
			if c != nil {
				c.Close() // the accepted connection is not part of this world
			}
			cb(err, 0)
		})
		return
	case wkPacket:
		if dir == wRead {
			o.pc.AsyncReadFrom(o.buf[0], func(err error, n int, from net.Addr) { cb(err, n) })
		} else {
			o.pc.AsyncWriteTo(o.buf[1], &net.UDPAddr{IP: net.IP{10, 0, 0, 1}, Port: 9}, func(err error) { cb(err, 0) })
		}
		return
	case wkAdapter:
		switch {
		case dir == wRead && all:
			o.ad.AsyncReadAll(o.buf[0], cb)
		case dir == wRead:
			o.ad.AsyncRead(o.buf[0], cb)
		case all:
			o.ad.AsyncWriteAll(o.buf[1], cb)
		default:
			o.ad.AsyncWrite(o.buf[1], cb)
		}
		return
	}
	switch {
	case dir == wRead && all:
		o.f.AsyncReadAll(o.buf[0], cb)
	case dir == wRead:
		o.f.AsyncRead(o.buf[0], cb)
	case all:
		o.f.AsyncWriteAll(o.buf[1], cb)
	default:
		o.f.AsyncWrite(o.buf[1], cb)
	}
}

func (w *world) armed(i, dir int) bool {
	o := &w.objs[i]
	bit := internal.PollerReadEvent
	kbit := uint32(vkernel.EPOLLIN)
	if dir == wWrite {
		bit = internal.PollerWriteEvent
		kbit = vkernel.EPOLLOUT
	}
	if o.slot.Events&bit == 0 {
		return false
	}
	reg, ev := vkernel.Registered(w.epfd, o.fd)
	return reg && ev&kbit != 0
}

func (w *world) cancel(i int) {
	o := &w.objs[i]
	if o.closed {
		return
	}
	var inflight [2]int
	inflight[0], inflight[1] = o.cur[0], o.cur[1]
	ctl0 := vkernel.K.Log.CtlFail
	switch o.what {
	case wkFile:
		o.f.Cancel()
	case wkAdapter:
		o.ad.Cancel()
	default:
		return // listeners and packet connections have no Cancel
	}
	for d := 0; d < 2; d++ {
		if o.closed {
			break // a callback run by Cancel closed the object: the remaining operations end with it (O4)
		}
		if id := inflight[d]; id >= 0 {
			vf.Assert("O2:cancel-completes-each-in-flight-operation-once", w.ops[id].calls == 1)
			if vkernel.K.Log.CtlFail == ctl0 && w.ops[id].calls == 1 {
				vf.Assert("O2:cancelled-operations-get-the-cancellation-error", w.ops[id].err == sonicerrors.ErrCancelled)
			}
		}
	}
}

func (w *world) close(i int) {
	o := &w.objs[i]
	if o.closed {
		return
	}
	switch o.what {
	case wkFile:
		o.f.Close()
	case wkListener:
		o.l.Close()
	case wkPacket:
		o.pc.Close()
	case wkAdapter:
		o.ad.Close()
	}
	o.closed = true
	o.cur[0], o.cur[1] = -1, -1
}

// poll runs one poll cycle and checks the hang-up obligation O5.
func (w *world) poll() (int, error) {
	w.polls++
	var before [2][2]int
	for i := 0; i < 2; i++ {
		before[i] = w.objs[i].cur
	}
	n, err := w.ioc.PollOne()
	// O5: an ERR/HUP entry for an object with an operation in flight must complete one of them,
	// otherwise level-triggered epoll reports it forever and the operation never completes
	for e := 0; e < vkernel.K.Log.LastN && e < 4 && err == nil; e++ {
		if vkernel.K.Log.LastMask[e]&(vkernel.EPOLLERR|vkernel.EPOLLHUP) == 0 {
			continue
		}
		for i := 0; i < 2; i++ {
			o := &w.objs[i]
			if o.fd != vkernel.K.Log.LastBatch[e] || o.closed {
				continue
			}
			had := before[i][0] >= 0 || before[i][1] >= 0
			done := false
			for d := 0; d < 2; d++ {
				if id := before[i][d]; id >= 0 && w.ops[id].calls > 0 {
					done = true
				}
			}
			if had && e == 0 {
				vf.Reach("opt:hangup-entry")
				vf.Assert("O5:hang-up-completes-an-in-flight-operation", done)
			}
		}
	}
	return n, err
}

// settle checks, between steps, that every started operation is accounted for.
func (w *world) settle() {
	vf.Assert("dispatched-back-to-zero", w.ioc.Dispatched == 0 || w.ioc.Dispatched == MaxCallbackDispatch)
	for id := 0; id < w.nops; id++ {
		op := &w.ops[id]
		o := &w.objs[op.obj]
		vf.Assert("O1:at-most-once", op.calls <= 1)
		if op.calls == 0 && !o.closed {
			// neither completed nor closed: it must still be armed, in sonic's books and in the kernel's
			vf.Assert("O3:pending-operation-is-armed", vf.All(o.cur[op.dir] == id, w.armed(op.obj, op.dir)))
		}
	}
}

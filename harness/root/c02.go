//go:build verif

package sonic

import (
	"io"
	"syscall"

	"github.com/talostrading/sonic/internal/vf"
	"github.com/talostrading/sonic/internal/vsys/vkernel"
)

// C02 — byte-stream fidelity and the ReadAll/WriteAll contract, on the real
// file/conn code over the real IO + epoll poller running on the kernel model.

func c02Cfg() vkernel.Config {
	return vkernel.Config{AllowAgain: true, AllowEOF: true, AllowIOErr: true, AllowPartial: true, Batch: 1,
		MaxDataOps: vf.Bound("kernel-segments", 3, 4)}
}

func VerifC02_Read() {
	vkernel.Reset(c02Cfg())
	ioc := MustIO()
	fd := vkernel.NewStream()
	f := newFile(ioc, fd)
	L := vf.Len("L")
	vf.Assume(vf.All(1 <= L, L <= 1<<31))
	b := make([]byte, L)
	all := vf.Bool("all")
	if vf.Bool("deferred-start") {
		ioc.Dispatched = MaxCallbackDispatch
		vf.Reach("deferred-start")
	}
	d0 := ioc.Dispatched
	calls := 0
	var gotErr error
	gotN := 0
	cb := func(err error, n int) { calls++; gotErr, gotN = err, n }
	if all {
		f.AsyncReadAll(b, cb)
	} else {
		f.AsyncRead(b, cb)
	}
	R := vf.Bound("polls", 3, 3)
	vf.Unwind(16)
	polls := 0
	for calls == 0 && polls < R {
		ioc.PollOne()
		polls++
	}
	vf.Assert("at-most-once", calls <= 1)
	vf.Assert("dispatched-restored", ioc.Dispatched == d0)
	if calls == 1 {
		vf.Reach("completed")
		del := vkernel.K.FDs[fd].Delivered
		if gotErr == nil {
			vf.Reach("success")
			vf.Assert("count-equals-bytes-moved", gotN == len(del))
			vf.Assert("positive", gotN > 0)
			if all {
				vf.Assert("readall-success-means-full", gotN == L)
				if polls > 0 {
					vf.Reach("readall-across-polls")
				}
			}
		} else {
			vf.Assert("error-count-not-above-transferred", vf.All(0 <= gotN, gotN <= len(del)))
		}
		if gotN > 0 {
			j := vf.Int("j")
			vf.Assume(vf.All(0 <= j, j < gotN))
			vf.Assert("bytes-are-the-stream", b[j] == del[j])
		}
		vf.Assert("nothing-pending-after-completion", ioc.Pending() == 0)
	}
	vf.Reach("end")
}

func VerifC02_Write() {
	vkernel.Reset(c02Cfg())
	ioc := MustIO()
	fd := vkernel.NewStream()
	f := newFile(ioc, fd)
	L := vf.Len("L")
	vf.Assume(vf.All(1 <= L, L <= 1<<31))
	b := vf.Bytes("payload", L)
	all := vf.Bool("all")
	if vf.Bool("deferred-start") {
		ioc.Dispatched = MaxCallbackDispatch
		vf.Reach("deferred-start")
	}
	d0 := ioc.Dispatched
	calls := 0
	var gotErr error
	gotN := 0
	cb := func(err error, n int) { calls++; gotErr, gotN = err, n }
	if all {
		f.AsyncWriteAll(b, cb)
	} else {
		f.AsyncWrite(b, cb)
	}
	R := vf.Bound("polls", 3, 3)
	vf.Unwind(16)
	polls := 0
	for calls == 0 && polls < R {
		ioc.PollOne()
		polls++
	}
	vf.Assert("at-most-once", calls <= 1)
	vf.Assert("dispatched-restored", ioc.Dispatched == d0)
	if calls == 1 {
		vf.Reach("completed")
		acc := vkernel.K.FDs[fd].Accepted
		if gotErr == nil {
			vf.Reach("success")
			vf.Assert("count-equals-bytes-moved", gotN == len(acc))
			if all {
				vf.Assert("writeall-success-means-full", gotN == L)
			}
		} else {
			vf.Assert("error-count-not-above-transferred", vf.All(0 <= gotN, gotN <= len(acc)))
		}
		if len(acc) > 0 {
			j := vf.Int("j")
			vf.Assume(vf.All(0 <= j, j < len(acc)))
			vf.Assert("peer-gets-the-callers-bytes", acc[j] == b[j])
		}
		vf.Assert("nothing-pending-after-completion", ioc.Pending() == 0)
	}
	vf.Reach("end")
}

// ---- AsyncAdapter-wrapped net.Conn (what the WebSocket client uses) ----

type c02RawConn struct{ fd int }

func (c c02RawConn) Control(f func(fd uintptr)) error    { f(uintptr(c.fd)); return nil }
func (c c02RawConn) Read(f func(fd uintptr) bool) error  { f(uintptr(c.fd)); return nil }
func (c c02RawConn) Write(f func(fd uintptr) bool) error { f(uintptr(c.fd)); return nil }

// c02NetConn behaves like a net.Conn on the descriptor: the adapter calls Read/Write only after
// epoll reported readiness, a 0-byte read is io.EOF, there is no would-block.
type c02NetConn struct{ fd int }

func (c c02NetConn) SyscallConn() (syscall.RawConn, error) { return c02RawConn{c.fd}, nil }

func (c c02NetConn) Read(p []byte) (int, error) {
	n, e := vkernel.Read(c.fd, p)
	if e != 0 {
		return 0, e
	}
	if n == 0 {
		return 0, io.EOF
	}
	return n, nil
}

func (c c02NetConn) Write(p []byte) (int, error) {
	n, e := vkernel.Write(c.fd, p)
	if e != 0 {
		return 0, e
	}
	return n, nil
}

func c02Adapter() (*IO, *AsyncAdapter, int) {
	vkernel.Reset(vkernel.Config{AllowEOF: true, AllowIOErr: true, AllowPartial: true, Batch: 1,
		MaxDataOps: vf.Bound("adapter-kernel-segments", 3, 3), MaxWaits: 6})
	ioc := MustIO()
	fd := vkernel.NewStream()
	var a *AsyncAdapter
	NewAsyncAdapter(ioc, c02NetConn{fd}, c02NetConn{fd}, func(err error, ad *AsyncAdapter) { a = ad })
	vf.Assume(a != nil)
	return ioc, a, fd
}

func VerifC02_AdapterRead() {
	ioc, a, fd := c02Adapter()
	L := vf.Len("L")
	vf.Assume(vf.All(1 <= L, L <= 1<<31))
	b := make([]byte, L)
	all := vf.Bool("all")
	calls, gotN := 0, 0
	var gotErr error
	cb := func(err error, n int) { calls++; gotErr, gotN = err, n }
	if all {
		a.AsyncReadAll(b, cb)
	} else {
		a.AsyncRead(b, cb)
	}
	vf.Assert("adapter-defers-to-the-poller", calls == 0)
	vf.Unwind(16)
	polls := 0
	for calls == 0 && polls < 5 {
		ioc.PollOne()
		polls++
	}
	vf.Assert("at-most-once", calls <= 1)
	if calls == 1 {
		vf.Reach("completed")
		del := vkernel.K.FDs[fd].Delivered
		if gotErr == nil {
			vf.Reach("success")
			vf.Assert("count-equals-bytes-moved", gotN == len(del))
			if all {
				vf.Assert("readall-success-means-full", gotN == L)
				if vkernel.K.DataOps >= 3 {
					vf.Reach("readall-in-three-segments")
				}
			}
		} else {
			vf.Assert("error-count-not-above-transferred", vf.All(0 <= gotN, gotN <= len(del)))
		}
		if gotN > 0 {
			j := vf.Int("j")
			vf.Assume(vf.All(0 <= j, j < gotN))
			vf.Assert("bytes-are-the-stream", b[j] == del[j])
		}
		vf.Assert("nothing-pending-after-completion", ioc.Pending() == 0)
	}
	vf.Reach("end")
}

func VerifC02_AdapterWrite() {
	ioc, a, fd := c02Adapter()
	L := vf.Len("L")
	vf.Assume(vf.All(1 <= L, L <= 1<<31))
	b := vf.Bytes("payload", L)
	all := vf.Bool("all")
	calls, gotN := 0, 0
	var gotErr error
	cb := func(err error, n int) { calls++; gotErr, gotN = err, n }
	if all {
		a.AsyncWriteAll(b, cb)
	} else {
		a.AsyncWrite(b, cb)
	}
	vf.Unwind(16)
	polls := 0
	for calls == 0 && polls < 5 {
		ioc.PollOne()
		polls++
	}
	vf.Assert("at-most-once", calls <= 1)
	if calls == 1 {
		vf.Reach("completed")
		acc := vkernel.K.FDs[fd].Accepted
		if gotErr == nil {
			vf.Reach("success")
			vf.Assert("count-equals-bytes-moved", gotN == len(acc))
			if all {
				vf.Assert("writeall-success-means-full", gotN == L)
			}
		} else {
			vf.Assert("error-count-not-above-transferred", vf.All(0 <= gotN, gotN <= len(acc)))
		}
		if len(acc) > 0 {
			j := vf.Int("j")
			vf.Assume(vf.All(0 <= j, j < len(acc)))
			vf.Assert("peer-gets-the-callers-bytes", acc[j] == b[j])
		}
		vf.Assert("nothing-pending-after-completion", ioc.Pending() == 0)
	}
	vf.Reach("end")
}

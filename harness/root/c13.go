//go:build verif

package sonic

import (
	"github.com/talostrading/sonic/internal"
	"github.com/talostrading/sonic/internal/vf"
	"github.com/talostrading/sonic/internal/vsys/vkernel"
)

// C13 — descriptors: (a) every constructor with every environment call free
// to fail leaves the descriptor table as it found it on error, and Close
// releases exactly what the object owns; (b) repeated Close never closes a
// descriptor that now belongs to someone else; (c) an object with an
// operation in flight is referenced from the IO's registry.

func c13FailCfg() vkernel.Config {
	return vkernel.Config{AllowAllocFail: true, AllowCtlFail: true, AllowOptFail: true, AllowEINTR: false, AllowAgain: true, AllowIOErr: true, Batch: 1}
}

func VerifC13_NewIO() {
	vkernel.Reset(c13FailCfg())
	before := vkernel.OpenCount()
	ioc, err := NewIO()
	if err != nil {
		vf.Reach("failed")
		vf.Assert("failed-NewIO-leaks-nothing", vkernel.OpenCount() == before)
		return
	}
	vf.Reach("ok")
	vf.Assert("NewIO-owns-two-descriptors", vkernel.OpenCount() == before+2)
	t, terr := NewTimer(ioc)
	if terr != nil {
		vf.Reach("timer-failed")
		vf.Assert("failed-NewTimer-leaks-nothing", vkernel.OpenCount() == before+2)
	} else {
		vf.Assert("timer-close", t.Close() == nil)
		vf.Assert("timer-released", vkernel.OpenCount() == before+2)
		// a second Close must not touch the table again
		bad := vkernel.K.Log.BadClose
		t.Close()
		vf.Assert("timer-second-close-is-a-no-op", vf.All(vkernel.OpenCount() == before+2, vkernel.K.Log.BadClose == bad))
	}
	vf.Assert("io-close", ioc.Close() == nil)
	vf.Assert("io-released", vkernel.OpenCount() == before)
	ioc.Close()
	vf.Assert("io-second-close-is-a-no-op", vkernel.OpenCount() == before)
	vf.Reach("end")
}

func VerifC13_Dial() {
	vkernel.Reset(c13FailCfg())
	ioc := MustIOorSkip()
	before := vkernel.OpenCount()
	network := "tcp"
	if vf.Bool("udp") {
		network = "udp"
	}
	vf.Unwind(8)
	c, err := Dial(ioc, network, "10.0.0.1:80")
	if err != nil {
		vf.Reach("failed")
		vf.Assert("failed-Dial-leaks-nothing", vkernel.OpenCount() == before)
		return
	}
	vf.Reach("ok")
	vf.Assert("Dial-owns-one-descriptor", vkernel.OpenCount() == before+1)
	fd := c.RawFd()
	c.Close()
	vf.Assert("conn-released", vf.All(vkernel.OpenCount() == before, !vkernel.IsOpen(fd)))
	// somebody else gets the number; a second Close must leave it alone
	other := vkernel.NewStream()
	vf.Assert("number-reused", other == fd)
	c.Close()
	vf.Assert("second-close-leaves-foreign-descriptor-alone", vkernel.IsOpen(other))
	vf.Reach("end")
}

// MustIOorSkip builds an IO with allocation failures switched off for the set-up.
func MustIOorSkip() *IO {
	saved := vkernel.K.Cfg
	vkernel.K.Cfg.AllowAllocFail, vkernel.K.Cfg.AllowCtlFail = false, false
	ioc := MustIO()
	vkernel.K.Cfg = saved
	return ioc
}

func VerifC13_Listen() {
	vkernel.Reset(c13FailCfg())
	ioc := MustIOorSkip()
	before := vkernel.OpenCount()
	l, err := Listen(ioc, "tcp", "")
	if err != nil {
		vf.Reach("failed")
		vf.Assert("failed-Listen-leaks-nothing", vkernel.OpenCount() == before)
		return
	}
	vf.Reach("ok")
	vf.Assert("Listen-owns-one-descriptor", vkernel.OpenCount() == before+1)
	conn, aerr := l.Accept()
	if aerr != nil {
		vf.Reach("accept-failed")
		vf.Assert("failed-accept-leaks-nothing", vkernel.OpenCount() == before+1)
	} else {
		vf.Reach("accepted")
		vf.Assert("accept-owns-one-more", vkernel.OpenCount() == before+2)
		conn.Close()
		vf.Assert("accepted-conn-released", vkernel.OpenCount() == before+1)
	}
	fd := l.RawFd()
	l.Close()
	vf.Assert("listener-released", vf.All(vkernel.OpenCount() == before, !vkernel.IsOpen(fd)))
	other := vkernel.NewStream()
	vf.Assert("number-reused", other == fd)
	l.Close()
	vf.Assert("second-close-leaves-foreign-descriptor-alone", vkernel.IsOpen(other))
	vf.Reach("end")
}

func VerifC13_PacketConn() {
	vkernel.Reset(c13FailCfg())
	ioc := MustIOorSkip()
	before := vkernel.OpenCount()
	c, err := NewPacketConn(ioc, "udp", "")
	if err != nil {
		vf.Reach("failed")
		vf.Assert("failed-NewPacketConn-leaks-nothing", vkernel.OpenCount() == before)
		return
	}
	vf.Reach("ok")
	fd := c.RawFd()
	c.Close()
	vf.Assert("packetconn-released", vf.All(vkernel.OpenCount() == before, !vkernel.IsOpen(fd)))
	other := vkernel.NewStream()
	vf.Assert("number-reused", other == fd)
	c.Close()
	vf.Assert("second-close-leaves-foreign-descriptor-alone", vkernel.IsOpen(other))
	vf.Reach("end")
}

func VerifC13_OpenFile() {
	vkernel.Reset(c13FailCfg())
	ioc := MustIOorSkip()
	before := vkernel.OpenCount()
	f, err := Open(ioc, "/tmp/x", 0, 0)
	if err != nil {
		vf.Reach("failed")
		vf.Assert("failed-Open-leaks-nothing", vkernel.OpenCount() == before)
		return
	}
	fd := f.RawFd()
	f.Close()
	vf.Assert("file-released", vf.All(vkernel.OpenCount() == before, !vkernel.IsOpen(fd)))
	other := vkernel.NewStream()
	f.Close()
	vf.Assert("second-close-leaves-foreign-descriptor-alone", vkernel.IsOpen(other))
	vf.Reach("end")
}

// (c) the IO's registry references the object while anything is in flight on it.
func VerifC13_OwnersReachable() {
	w := newWorld(vkernel.Config{AllowAgain: true, AllowEOF: true, AllowIOErr: true, Batch: 2}, [2]vkernel.Kind{vkernel.KStream, vkernel.KStream})
	w.ioc.Dispatched = MaxCallbackDispatch
	w.nest = 0
	vf.Unwind(16)
	K := vf.Bound("k", 3, 4)
	for s := 0; s < K; s++ {
		switch vf.Choice("action", 4) {
		case 0:
			w.start(0, wRead, false)
		case 1:
			w.start(0, wWrite, false)
		case 2:
			w.cancel(0)
		case 3:
			w.poll()
		}
		o := &w.objs[0]
		inflight := (o.cur[0] >= 0 && w.ops[o.cur[0]].calls == 0) || (o.cur[1] >= 0 && w.ops[o.cur[1]].calls == 0)
		if inflight && !o.closed {
			vf.Reach("opt:in-flight")
			vf.Assert("registry-references-owner-of-in-flight-operation", w.ioc.pending.static[o.fd] == o.slot)
		}
	}
	_ = internal.ReadEvent
	vf.Reach("end")
}

// (b) generalised: histories of k steps over up to three objects of any closable kind — each step
// creates an object (conn, listener, packet conn, file, timer) or calls Close on ANY slot, closed ones
// included (repeated Close). With lowest-free descriptor numbers a stale Close hits whoever owns the
// number now. After every step: every live object's descriptor is still open and the number of open
// descriptors is exactly the number the live objects own.
type c13Obj struct {
	kind   int
	live   bool
	used   bool
	fd     int // -1 for timers (counted only)
	closer func() error
}

func VerifC13_CloseHistory() {
	vkernel.Reset(vkernel.Config{Batch: 1})
	ioc := MustIO()
	base := vkernel.OpenCount()
	var objs [3]c13Obj
	K := vf.Bound("k", 4, 5)
	vf.Unwind(16)
	for s := 0; s < K; s++ {
		a := vf.Choice("action", 8)
		if a < 5 {
			slot := -1
			for i := range objs {
				if !objs[i].used {
					slot = i
					break
				}
			}
			vf.Assume(slot >= 0)
			o := &objs[slot]
			o.kind, o.used, o.live = a, true, true
			switch a {
			case 0:
				c, err := Dial(ioc, "tcp", "10.0.0.1:80")
				vf.Assume(err == nil)
				o.fd, o.closer = c.RawFd(), c.Close
			case 1:
				l, err := Listen(ioc, "tcp", "")
				vf.Assume(err == nil)
				o.fd, o.closer = l.RawFd(), l.Close
			case 2:
				c, err := NewPacketConn(ioc, "udp", "")
				vf.Assume(err == nil)
				o.fd, o.closer = c.RawFd(), c.Close
			case 3:
				f, err := Open(ioc, "/tmp/x", 0, 0)
				vf.Assume(err == nil)
				o.fd, o.closer = f.RawFd(), f.Close
			case 4:
				t, err := NewTimer(ioc)
				vf.Assume(err == nil)
				o.fd, o.closer = -1, t.Close
			}
		} else {
			o := &objs[a-5]
			vf.Assume(o.used)
			if !o.live {
				vf.Reach("opt:repeated-close")
			}
			o.closer()
			o.live = false
		}
		live := 0
		for i := range objs {
			if objs[i].used && objs[i].live {
				live++
				if objs[i].fd >= 0 {
					vf.Assert("live-objects-keep-their-descriptor", vkernel.IsOpen(objs[i].fd))
				}
			}
		}
		vf.Assert("open-descriptors-are-exactly-the-live-objects", vkernel.OpenCount() == base+live)
	}
	vf.Reach("end")
}

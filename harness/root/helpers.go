//go:build verif

package sonic

import (
	"io"

	"github.com/talostrading/sonic/internal"
	"github.com/talostrading/sonic/sonicerrors"

	"github.com/talostrading/sonic/internal/vf"
)

var verifEOF = io.EOF

// Helpers that let harnesses of other packages build and inspect ByteBuffer
// states (its fields are unexported). Overlay only; never part of /repo.

func VerifMakeByteBuffer(si, ri, wi int, data []byte) *ByteBuffer {
	return &ByteBuffer{si: si, ri: ri, wi: wi, data: data[:wi]}
}

func VerifBufState(b *ByteBuffer) (si, ri, wi, capv int) {
	return b.si, b.ri, b.wi, cap(b.data)
}

// VerifBufRaw returns the whole backing array (all cap bytes).
func VerifBufRaw(b *ByteBuffer) []byte { return b.data[:cap(b.data)] }

func VerifBufInv(b *ByteBuffer) bool { return c09Inv(b) }

// VerifPoller exposes the IO's poller to harnesses of other packages.
func VerifPoller(ioc *IO) internal.Poller { return ioc.poller }

// ---- scripted transport: a Stream whose peer is the harness ----

// VerifTransport implements Stream. Reads hand out the next n bytes of In
// (n symbolic, 1 <= n <= min(len(b), remaining)); writes accept 1..len(b)
// bytes (symbolic) and append them to Out. Asynchronous operations complete
// inline unless Hold is set, in which case FireRead/FireWrite complete them.
type VerifTransport struct {
	In        []byte
	InOff     int
	Total     int
	Out       []byte
	Segs      int
	MaxSegs   int
	WSegs     int
	MaxWSegs  int
	Hold      bool
	SplitLimit int // with Concrete: a segment is at most this long unless it delivers everything that fits (0: no limit)
	Concrete  bool // segment sizes are case-split into constants (long histories, DESIGN §2.13 regime B)
	EOFErr    error // what a read at end of stream returns (nil: io.EOF)
	WriteErr  error // if non-nil, writes fail with it (after accepting nothing)
	WBlockAt  int   // if > 0: the WBlockAt-th call of Write reports would-block, accepting nothing
	RBlockAt  int   // if > 0: the RBlockAt-th call of Read reports would-block, delivering nothing
	Closed    bool
	Reads     int
	Writes    int
	heldRead  func()
	heldWrite func()
	Cancels   int
}

var _ Stream = &VerifTransport{}

func (t *VerifTransport) RawFd() int { return -1 }

func (t *VerifTransport) Close() error {
	t.Closed = true
	return nil
}

func (t *VerifTransport) Cancel() { t.Cancels++ }

func (t *VerifTransport) eof() error {
	if t.EOFErr != nil {
		return t.EOFErr
	}
	return verifEOF
}

func (t *VerifTransport) Read(b []byte) (int, error) {
	t.Reads++
	if t.RBlockAt > 0 && t.Reads == t.RBlockAt {
		return 0, sonicerrors.ErrWouldBlock
	}
	if len(b) == 0 {
		// read(2) with a zero-length buffer returns 0, which every sonic stream (file.Read) reports as io.EOF
		return 0, verifEOF
	}
	if t.InOff >= t.Total {
		return 0, t.eof()
	}
	rem := t.Total - t.InOff
	n := vf.Len("seg")
	vf.Assume(vf.All(1 <= n, n <= len(b), n <= rem))
	t.Segs++
	if t.MaxSegs > 0 && t.Segs >= t.MaxSegs {
		// last allowed segment delivers everything that fits
		m := rem
		if m > len(b) {
			m = len(b)
		}
		vf.Assume(n == m)
	}
	if t.Concrete {
		if t.SplitLimit > 0 {
			m := rem
			if m > len(b) {
				m = len(b)
			}
			vf.Assume(vf.Any(n <= t.SplitLimit, n == m))
		}
		n = vf.Concretize(n, 64)
	}
	copy(b[:n], t.In[t.InOff:t.InOff+n])
	t.InOff += n
	return n, nil
}

func (t *VerifTransport) AsyncRead(b []byte, cb AsyncCallback) {
	do := func() {
		n, err := t.Read(b)
		cb(err, n)
	}
	if t.Hold {
		t.heldRead = do
		return
	}
	do()
}

func (t *VerifTransport) AsyncReadAll(b []byte, cb AsyncCallback) {
	do := func() {
		got := 0
		for got < len(b) {
			n, err := t.Read(b[got:])
			got += n
			if err != nil {
				cb(err, got)
				return
			}
		}
		cb(nil, got)
	}
	if t.Hold {
		t.heldRead = do
		return
	}
	do()
}

func (t *VerifTransport) Write(b []byte) (int, error) {
	t.Writes++
	if t.WriteErr != nil {
		return 0, t.WriteErr
	}
	if t.WBlockAt > 0 && t.Writes == t.WBlockAt {
		return 0, sonicerrors.ErrWouldBlock
	}
	if len(b) == 0 {
		return 0, nil
	}
	n := vf.Len("wseg")
	vf.Assume(vf.All(1 <= n, n <= len(b)))
	t.WSegs++
	if t.MaxWSegs > 0 && t.WSegs >= t.MaxWSegs {
		vf.Assume(n == len(b))
	}
	if t.Concrete {
		if t.SplitLimit > 0 {
			vf.Assume(vf.Any(n <= t.SplitLimit, n == len(b)))
		}
		n = vf.Concretize(n, 64)
	}
	t.Out = append(t.Out, b[:n]...)
	return n, nil
}

func (t *VerifTransport) AsyncWrite(b []byte, cb AsyncCallback) {
	do := func() {
		n, err := t.Write(b)
		cb(err, n)
	}
	if t.Hold {
		t.heldWrite = do
		return
	}
	do()
}

func (t *VerifTransport) AsyncWriteAll(b []byte, cb AsyncCallback) {
	do := func() {
		sent := 0
		for sent < len(b) {
			n, err := t.Write(b[sent:])
			sent += n
			if err != nil {
				cb(err, sent)
				return
			}
		}
		cb(nil, sent)
	}
	if t.Hold {
		t.heldWrite = do
		return
	}
	do()
}

// FireRead completes the held asynchronous read, if any.
func (t *VerifTransport) FireRead() bool {
	if t.heldRead == nil {
		return false
	}
	f := t.heldRead
	t.heldRead = nil
	f()
	return true
}

func (t *VerifTransport) FireWrite() bool {
	if t.heldWrite == nil {
		return false
	}
	f := t.heldWrite
	t.heldWrite = nil
	f()
	return true
}

func (t *VerifTransport) HasHeldRead() bool  { return t.heldRead != nil }
func (t *VerifTransport) HasHeldWrite() bool { return t.heldWrite != nil }

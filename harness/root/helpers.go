//go:build verif

package sonic

// Helpers that let harnesses of other packages build and inspect ByteBuffer
// states (its fields are unexported). Overlay only; never part of /repo.

func VerifMakeByteBuffer(si, ri, wi int, data []byte) *ByteBuffer {
	return &ByteBuffer{si: si, ri: ri, wi: wi, data: data[:wi]}
}

func VerifBufState(b *ByteBuffer) (si, ri, wi, capv int) {
	return b.si, b.ri, b.wi, cap(b.data)
}

// VerifBufRaw returns the whole backing array (all cap bytes).
func VerifBufRaw(b *ByteBuffer) []byte { return b.data[:cap(b.data)] }

func VerifBufInv(b *ByteBuffer) bool { return c09Inv(b) }

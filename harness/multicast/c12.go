//go:build verif

package multicast

import (
	"net/netip"

	"github.com/talostrading/sonic"
	"github.com/talostrading/sonic/internal"
	"github.com/talostrading/sonic/internal/vf"
	"github.com/talostrading/sonic/internal/vsys/vkernel"
)

// C12 (multicast peer part) — the settings a UDPPeer reports equal the
// socket's kernel state (as stored by the model's setsockopt/bind), after the
// real constructor and any sequence of setters, each of which may fail.
// Also the C13 clause for NewUDPPeer: a failing constructor leaks nothing.

// option slots of the kernel model (see vsys/vsyscall/sockets.go)
const (
	c12OptLoop = 0
	c12OptTTL  = 1
	c12OptAll  = 2
)

func c12Agree(p *UDPPeer, fd int, tag string, loopToo bool) {
	k := &vkernel.K.FDs[fd]
	vf.Assert("ttl-equals-kernel-state"+tag, int(p.TTL()) == k.Opts[c12OptTTL])
	vf.Assert("all-equals-kernel-state"+tag, p.All() == (k.Opts[c12OptAll] != 0))
	if loopToo {
		vf.Assert("loop-equals-kernel-state"+tag, p.Loop() == (k.Opts[c12OptLoop] != 0))
	}
	la := p.LocalAddr()
	vf.Assert("local-address-equals-kernel-state"+tag, vf.All(la != nil, la.Port == k.BoundPort, len(la.IP) == 4,
		la.IP[0] == k.BoundAddr[0], la.IP[1] == k.BoundAddr[1], la.IP[2] == k.BoundAddr[2], la.IP[3] == k.BoundAddr[3]))
	_, oip := p.Outbound()
	o4 := oip.As4()
	vf.Assert("outbound-equals-kernel-state"+tag, vf.All(o4[0] == k.McastIf[0], o4[1] == k.McastIf[1], o4[2] == k.McastIf[2], o4[3] == k.McastIf[3]))
}

func VerifC12_PeerSettings() {
	vkernel.Reset(vkernel.Config{Batch: 1})
	ioc := sonic.MustIO()
	vkernel.K.Cfg.AllowOptFail = true
	vkernel.K.Cfg.AllowAllocFail = true
	before := vkernel.OpenCount()
	p, err := NewUDPPeer(ioc, "udp", "0.0.0.0:0")
	if err != nil {
		vf.Reach("constructor-failed")
		vf.Assert("failed-NewUDPPeer-leaks-nothing", vkernel.OpenCount() == before)
		return
	}
	vf.Reach("constructed")
	fd := p.NextLayer().RawFd()
	if vf.Bool("check-loop-of-a-fresh-peer") {
		// the kernel's multicast loop-back default is 1; the getter used by the constructor inverts it
		vf.Reach("fresh-peer-loop-checked")
		vf.Known("KF-C12-1", true)
		vf.Assert("loop-equals-kernel-state", p.Loop() == (vkernel.K.FDs[fd].Opts[c12OptLoop] != 0))
		return
	}
	loopSet := false // Loop() is compared once SetLoop has stored a value (see KF-C12-1 for the fresh peer)
	c12Agree(p, fd, "", loopSet)
	N := vf.Bound("setter-calls", 2, 4)
	for i := 0; i < N; i++ {
		switch vf.Choice("setter", 3) {
		case 0:
			if p.SetLoop(vf.Bool("loop")) == nil {
				loopSet = true
			}
		case 1:
			p.SetTTL(vf.Uint8("ttl"))
		case 2:
			p.SetAll(vf.Bool("all"))
		}
		c12Agree(p, fd, "-after-setter", loopSet)
	}
	p.Close()
	vf.Assert("close-releases-the-socket", vkernel.OpenCount() == before)
	vf.Reach("end")
}

func c12Peer(cfg vkernel.Config) (*sonic.IO, *UDPPeer, int) {
	vkernel.Reset(vkernel.Config{Batch: 1})
	ioc := sonic.MustIO()
	p, err := NewUDPPeer(ioc, "udp", "0.0.0.0:0")
	vf.Assume(err == nil)
	vkernel.K.Cfg = cfg
	return ioc, p, p.NextLayer().RawFd()
}

// Read path of the multicast peer: one callback per datagram, its length (truncated), the sender,
// and the data lands in the buffer MOST RECENTLY designated for the pending read.
func VerifC12_PeerRead() {
	ioc, p, fd := c12Peer(vkernel.Config{AllowAgain: true, AllowIOErr: true, Batch: 1, MaxWaits: 3})
	L1 := vf.Len("buffer1")
	L2 := vf.Len("buffer2")
	vf.Assume(vf.All(1 <= L1, L1 <= 70000, 1 <= L2, L2 <= 70000))
	b1, b2 := make([]byte, L1), make([]byte, L2)
	if vf.Bool("deferred-start") {
		ioc.Dispatched = sonic.MaxCallbackDispatch
	}
	d0 := ioc.Dispatched
	calls, gotN := 0, 0
	var gotErr error
	var from [4]byte
	port := 0
	p.AsyncRead(b1, func(err error, n int, ap netip.AddrPort) {
		calls++
		gotErr, gotN = err, n
		if err == nil {
			from, port = ap.Addr().As4(), int(ap.Port())
		}
	})
	designated := b1
	if calls == 0 && vf.Bool("redesignate") {
		p.SetAsyncReadBuffer(b2)
		designated = b2
		vf.Reach("redesignated-while-pending")
	}
	vf.Unwind(16)
	for i := 0; i < 2 && calls == 0; i++ {
		ioc.PollOne()
	}
	vf.Assert("at-most-once", calls <= 1)
	vf.Assert("dispatched-restored", ioc.Dispatched == d0)
	k := &vkernel.K.FDs[fd]
	if calls == 1 && k.Recvs == 1 {
		// the kernel handed over one non-empty datagram and the caller's buffer is non-empty: that read succeeds
		vf.Assert("a-delivered-datagram-completes-the-read-successfully", gotErr == nil)
	}
	if calls == 1 && gotErr == nil {
		vf.Reach("datagram")
		vf.Assert("one-datagram-one-callback", k.Recvs == 1)
		want := len(k.Delivered)
		if want > len(designated) {
			want = len(designated)
		}
		vf.Assert("length-is-the-datagram-truncated-to-the-designated-buffer", gotN == want)
		j := vf.Int("j")
		vf.Assume(vf.All(0 <= j, j < gotN))
		vf.Assert("bytes-are-in-the-most-recently-designated-buffer", designated[j] == k.Delivered[j])
		vf.Assert("sender-ip-and-port", vf.All(from[0] == k.LastFrom[0], from[1] == k.LastFrom[1], from[2] == k.LastFrom[2], from[3] == k.LastFrom[3], port == k.LastPort))
	}
	if calls == 0 {
		vf.Assert("no-datagram-consumed-without-a-callback", k.Recvs == 0)
	}
	vf.Reach("end")
}

func VerifC12_PeerWrite() {
	ioc, p, fd := c12Peer(vkernel.Config{AllowAgain: true, AllowIOErr: true, Batch: 1, MaxWaits: 3})
	L := vf.Len("datagram")
	vf.Assume(vf.All(1 <= L, L <= 65507))
	b := vf.Bytes("payload", L)
	var a4 [4]byte
	a4[0], a4[1], a4[2], a4[3] = vf.Uint8("a"), vf.Uint8("b"), vf.Uint8("c"), vf.Uint8("d")
	dport := vf.Uint16("port")
	to := netip.AddrPortFrom(netip.AddrFrom4(a4), dport)
	if vf.Bool("deferred-start") {
		ioc.Dispatched = sonic.MaxCallbackDispatch
	}
	d0 := ioc.Dispatched
	calls, gotN := 0, 0
	var gotErr error
	p.AsyncWrite(b, to, func(err error, n int) { calls++; gotErr, gotN = err, n })
	vf.Unwind(16)
	for i := 0; i < 2 && calls == 0; i++ {
		ioc.PollOne()
	}
	vf.Assert("at-most-once", calls <= 1)
	vf.Assert("dispatched-restored", ioc.Dispatched == d0)
	k := &vkernel.K.FDs[fd]
	if calls == 1 && gotErr == nil {
		vf.Reach("sent")
		vf.Assert("exactly-one-datagram-emitted", k.Sent == 1)
		vf.Assert("reported-length", gotN == L)
		vf.Assert("datagram-has-the-callers-length", len(k.Accepted) == L)
		j := vf.Int("j")
		vf.Assume(vf.All(0 <= j, j < L))
		vf.Assert("datagram-has-the-callers-bytes", k.Accepted[j] == b[j])
		vf.Assert("datagram-goes-to-the-given-destination", vf.All(k.SentTo[0] == a4[0], k.SentTo[1] == a4[1], k.SentTo[2] == a4[2], k.SentTo[3] == a4[3], k.SentPort == int(dport)))
	}
	if calls == 0 || gotErr != nil {
		vf.Assert("nothing-emitted-without-success", k.Sent == 0)
	}
	vf.Reach("end")
}

// C14, fifth copy of the dispatch-limit logic (UDPPeer.AsyncRead / AsyncWrite) from an arbitrary depth.
func VerifC14_Peer() {
	ioc, p, fd := c12Peer(vkernel.Config{Batch: 1, MaxWaits: 2})
	d := vf.Int("d")
	vf.Assume(vf.All(0 <= d, d <= sonic.MaxCallbackDispatch))
	ioc.Dispatched = d
	depth, under := d, 0
	write := vf.Bool("write")
	calls := 0
	var gotErr error
	enter := func() {
		depth++
		vf.Assert("nesting-within-limit", depth <= sonic.MaxCallbackDispatch+1)
		vf.Assert("dispatched-counts-the-stack", ioc.Dispatched == depth-under)
		vf.Assert("dispatched-within-limit", ioc.Dispatched <= sonic.MaxCallbackDispatch)
	}
	if write {
		p.AsyncWrite(make([]byte, 3), netip.AddrPortFrom(netip.AddrFrom4([4]byte{10, 0, 0, 1}), 9), func(err error, n int) {
			enter()
			calls++
			gotErr = err
			depth--
		})
	} else {
		p.AsyncRead(make([]byte, 8), func(err error, n int, ap netip.AddrPort) {
			enter()
			calls++
			gotErr = err
			depth--
		})
	}
	vf.Assert("depth-accounting-restored", vf.All(ioc.Dispatched == d, depth == d))
	if d < sonic.MaxCallbackDispatch {
		vf.Reach("inline")
		vf.Assert("inline-completes-synchronously", vf.All(calls == 1, gotErr == nil))
		return
	}
	vf.Reach("at-limit")
	vf.Assert("deferred-not-run-synchronously", calls == 0)
	bit := uint32(vkernel.EPOLLIN)
	if write {
		bit = vkernel.EPOLLOUT
	}
	reg, ev := vkernel.Registered(internal.VerifPollerFd(sonic.VerifPoller(ioc)), fd)
	vf.Assert("deferred-is-armed", vf.All(reg, ev&bit != 0))
	ioc.Dispatched, depth, under = 0, 0, 1
	n, err := ioc.PollOne()
	under = 0
	if vkernel.K.Log.LastN == 1 && vkernel.K.Log.LastBatch[0] == fd {
		vf.Reach("dispatched-by-poller")
		vf.Assert("deferred-completes-with-the-inline-result", vf.All(n == 1, err == nil, calls == 1, gotErr == nil))
	}
	vf.Assert("depth-zero-after-unwinding", vf.All(ioc.Dispatched == 0, depth == 0))
	vf.Reach("end")
}

// Sequences of writes on ONE peer to independent symbolic destinations (address and port each):
// every successful write emits exactly one more datagram, to the destination of THAT write, with
// its bytes — whatever the previous write's destination was (same address / other port included).
func VerifC12_PeerWriteSequence() {
	ioc, p, fd := c12Peer(vkernel.Config{AllowAgain: true, AllowIOErr: true, Batch: 1, MaxWaits: 6})
	k := &vkernel.K.FDs[fd]
	N := vf.Bound("writes", 2, 3)
	vf.Unwind(16)
	sent := 0
	var prevA [4]byte
	prevPort := -1
	for i := 0; i < N; i++ {
		var a4 [4]byte
		a4[0], a4[1], a4[2], a4[3] = vf.Uint8("a"), vf.Uint8("b"), vf.Uint8("c"), vf.Uint8("d")
		dport := vf.Uint16("port")
		to := netip.AddrPortFrom(netip.AddrFrom4(a4), dport)
		b := vf.Bytes("payload", 2)
		var err error
		n, calls := 0, 1
		if vf.Bool("async") {
			calls = 0
			p.AsyncWrite(b, to, func(e error, m int) { calls++; err, n = e, m })
			for c := 0; c < 2 && calls == 0; c++ {
				ioc.PollOne()
			}
			vf.Assert("at-most-once", calls <= 1)
		} else {
			n, err = p.Write(b, to)
		}
		if calls == 1 && err == nil {
			sent++
			vf.Assert("one-more-datagram-emitted", vf.All(k.Sent == sent, n == 2, len(k.Accepted) == 2, k.Accepted[0] == b[0], k.Accepted[1] == b[1]))
			vf.Assert("datagram-goes-to-the-destination-of-this-write", vf.All(k.SentTo[0] == a4[0], k.SentTo[1] == a4[1], k.SentTo[2] == a4[2], k.SentTo[3] == a4[3], k.SentPort == int(dport)))
			if prevPort >= 0 && prevA == a4 && prevPort != int(dport) {
				vf.Reach("opt:same-address-other-port")
			}
			prevA, prevPort = a4, int(dport)
		} else {
			vf.Assert("nothing-emitted-without-success", k.Sent == sent)
		}
		if calls == 0 {
			break // still pending after two cycles: outside this sequence
		}
	}
	if sent >= 2 {
		vf.Reach("two-writes-sent")
	}
	vf.Reach("end")
}

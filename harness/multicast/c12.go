//go:build verif

package multicast

import (
	"github.com/talostrading/sonic"
	"github.com/talostrading/sonic/internal/vf"
	"github.com/talostrading/sonic/internal/vsys/vkernel"
)

// C12 (multicast peer part) — the settings a UDPPeer reports equal the
// socket's kernel state (as stored by the model's setsockopt/bind), after the
// real constructor and any sequence of setters, each of which may fail.
// Also the C13 clause for NewUDPPeer: a failing constructor leaks nothing.

// option slots of the kernel model (see vsys/vsyscall/sockets.go)
const (
	c12OptLoop = 0
	c12OptTTL  = 1
	c12OptAll  = 2
)

func c12Agree(p *UDPPeer, fd int, tag string, loopToo bool) {
	k := &vkernel.K.FDs[fd]
	vf.Assert("ttl-equals-kernel-state"+tag, int(p.TTL()) == k.Opts[c12OptTTL])
	vf.Assert("all-equals-kernel-state"+tag, p.All() == (k.Opts[c12OptAll] != 0))
	if loopToo {
		vf.Assert("loop-equals-kernel-state"+tag, p.Loop() == (k.Opts[c12OptLoop] != 0))
	}
	la := p.LocalAddr()
	vf.Assert("local-address-equals-kernel-state"+tag, vf.All(la != nil, la.Port == k.BoundPort, len(la.IP) == 4,
		la.IP[0] == k.BoundAddr[0], la.IP[1] == k.BoundAddr[1], la.IP[2] == k.BoundAddr[2], la.IP[3] == k.BoundAddr[3]))
	_, oip := p.Outbound()
	o4 := oip.As4()
	vf.Assert("outbound-equals-kernel-state"+tag, vf.All(o4[0] == k.McastIf[0], o4[1] == k.McastIf[1], o4[2] == k.McastIf[2], o4[3] == k.McastIf[3]))
}

func VerifC12_PeerSettings() {
	vkernel.Reset(vkernel.Config{Batch: 1})
	ioc := sonic.MustIO()
	vkernel.K.Cfg.AllowOptFail = true
	vkernel.K.Cfg.AllowAllocFail = true
	before := vkernel.OpenCount()
	p, err := NewUDPPeer(ioc, "udp", "0.0.0.0:0")
	if err != nil {
		vf.Reach("constructor-failed")
		vf.Assert("failed-NewUDPPeer-leaks-nothing", vkernel.OpenCount() == before)
		return
	}
	vf.Reach("constructed")
	fd := p.NextLayer().RawFd()
	if vf.Bool("check-loop-of-a-fresh-peer") {
		// the kernel's multicast loop-back default is 1; the getter used by the constructor inverts it
		vf.Reach("fresh-peer-loop-checked")
		vf.Known("KF-C12-1", true)
		vf.Assert("loop-equals-kernel-state", p.Loop() == (vkernel.K.FDs[fd].Opts[c12OptLoop] != 0))
		return
	}
	loopSet := false // Loop() is compared once SetLoop has stored a value (see KF-C12-1 for the fresh peer)
	c12Agree(p, fd, "", loopSet)
	N := vf.Bound("setter-calls", 2, 4)
	for i := 0; i < N; i++ {
		switch vf.Choice("setter", 3) {
		case 0:
			if p.SetLoop(vf.Bool("loop")) == nil {
				loopSet = true
			}
		case 1:
			p.SetTTL(vf.Uint8("ttl"))
		case 2:
			p.SetAll(vf.Bool("all"))
		}
		c12Agree(p, fd, "-after-setter", loopSet)
	}
	p.Close()
	vf.Assert("close-releases-the-socket", vkernel.OpenCount() == before)
	vf.Reach("end")
}
